package main

import (
	"fmt"
	"sort"
	"strings"

	"golang.org/x/tools/go/ssa"
)

func init() { register("C09", checkC09) }

func checkC09(c *Ctx) {
	r := c.R
	r.Rule("R08.6", "(shared with C08) no history in the destination wrappers: the package's writer types keep no per-record state between Writes (a carried-over tail makes a record depend on the previous chunk)")
	r.Rule("R09.1", "pooled state is re-initialised: for every field of the pooled PrintCtx and every output mode (branches on the two mode bits pruned), no path of a print session (from taking the object out of the pool to the Write) can read the field before this session has definitely written it; exceptions are justified one by one by their own checked invariant (buf truncated by set, off only ever stored 0 on the print path, constructor constants never stored again, prefix saved and restored, cachedSource extracted before read)")
	r.Rule("R09.2", "no other carry-over: nothing on the print path stores to a package-level variable or calls a mutating method on a package-level object, except the two pools and the atomic size hint, whose value flows only into the capacity of a fresh slice")
	r.Rule("R02.6", "(shared with C02) the pooled formatting buffer belongs to one record at a time: it goes back to the pool only after the Write that hands its bytes to the destination, and neither it nor the bytes taken from it are used afterwards")
	r.Rule("R08.1", "(shared with C08) nothing on the print path writes memory that outlives the call other than the pooled objects of this call")
	r.Rule("R08.2", "(shared with C08) slices that are sorted/compacted in place, and slots of the pooled attribute slice, belong to this call: never a handler's, logger's, group's or caller's backing array, and no stale element of an earlier call is exposed")
	r.Rule("R09.4", "capacity independence: outside the buffer API no branch condition on the print path depends on cap() of the pooled buffer, on Cap()/Available() or on the result of tryGrowByReslice: the room a recycled buffer has left is history")
	r.Rule("R08.3", "(shared with C08) the pooled objects of a record stay with that record: the attribute slice is taken and returned around the emission, and the formatting context is neither stored anywhere that outlives the call nor handed to an object the logger keeps for all its records")
	r.Rule("R09.3", "per-record inputs are (re)assigned for every record: set()/setentry() definitely store the mode bits, layout, zone mode, value stringer, colours, level, message, attributes, timestamp and stack frame on every path")
	r.Assume("user-supplied marshallers and value stringers leave the encoder's read offset and mode fields alone (they are outside the property's domain)")
	for _, tags := range c.Configs([]string{""}, []string{"", "verbose", "hint"}) {
		p := c.Prog(tags)
		if p == nil {
			continue
		}
		m, err := BuildModel(p)
		if err != nil {
			r.Unk("R09.1", "model", "-", "%v", err)
			continue
		}
		c09Pooled(c, p, m, "R09.1", feasibleModes)
		allFieldsOnEveryPath(c, p, "R09.1", "Source", "Extract")
		countersBalanced(c, p, m, "R09.1")
		wrappersStateless(c, p, "R08.6")
		c09Globals(c, p, m)
		c09Capacity(c, p, m)
		c08Pools(c, p, m)
		c08Stores(c, p, m)
		pooledObjectsFresh(c, p, "R08.1")
	}
	c.Floor["R09.1"] = 60
	c.Floor["R09.3"] = 10
}

// sessionEntries: functions that take the formatting context out of its pool.
func sessionEntries(p *Prog) []*ssa.Function {
	pool := p.Global(p.Slog, "poolPrintCtx")
	var out []*ssa.Function
	for _, fn := range p.RepoFuncs() {
		if p.startupOnly(fn) {
			continue
		}
		for _, cs := range callsIn(fn) {
			if cal := calleeOf(cs); cal != nil && cal.String() == "(*sync.Pool).Get" && len(cs.Common().Args) > 0 && cs.Common().Args[0] == ssa.Value(pool) {
				out = append(out, fn)
			}
		}
	}
	return out
}

// c09Pooled runs E10 for the given modes and reports per (field, mode) under `rule`.
func c09Pooled(c *Ctx, p *Prog, m *Model, rule string, modes []Mode) {
	r := c.R
	entries := sessionEntries(p)
	if len(entries) == 0 {
		r.Unk(rule, "session:none", "-", "no function takes a PrintCtx out of the pool: anchor lost")
		return
	}
	tree := printTree(p, m)
	// the buffer API reachable through io.Writer wrapping
	for _, n := range []string{"Write", "WriteString", "WriteByte", "WriteRune"} {
		if f := p.Method(p.Slog, "PrintCtx", n); f != nil {
			for g := range staticReach([]*ssa.Function{f}, func(fn *ssa.Function) bool { return fn.Pkg != p.Slog && fn.Parent() == nil && fn.Origin() == nil }) {
				tree[g] = true
			}
		}
	}
	fields := pcFields(p)
	// exemptions, each with its own check
	exempt := map[string]string{}
	// buf: truncated by set/setentry
	if se := p.Method(p.Slog, "PrintCtx", "setentry"); se != nil {
		ok := false
		for _, fs := range fieldStores(se) {
			if fs.Struct == "PrintCtx" && fs.Field == "buf" {
				if sl, isS := fs.Val.(*ssa.Slice); isS && sl.Low == nil {
					if hv, isC := constInt(sl.High); isC && hv == 0 {
						if b, isF := isFieldLoadOf(sl.X, "PrintCtx", "buf"); isF && b == fs.Base && len(guardsOf(fs.Instr.Block())) == 0 {
							ok = true
						}
					}
				}
			}
		}
		if ok {
			exempt["buf"] = "truncated to length 0 unconditionally at the start of every session (setentry)"
			r.Ok(rule, "invariant:buf", p.FuncPos(se), "the buffer is truncated to its own [:0] unconditionally by setentry")
		} else {
			r.Bad(rule, "invariant:buf", p.FuncPos(se), "setentry no longer truncates the buffer to length 0 unconditionally: bytes of the previous record stay in front of the next one")
		}
	}
	// constructor constants
	for _, f := range []string{"noQuoted", "dedupeAttrs"} {
		var stores []string
		for _, fn := range p.RepoFuncs() {
			for _, fs := range fieldStores(fn) {
				if fs.Struct == "PrintCtx" && fs.Field == f && nm(fn) != "newPrintCtx" {
					stores = append(stores, shortName(fn))
				}
			}
		}
		if len(stores) == 0 {
			exempt[f] = "constant after construction: stored only by newPrintCtx"
			r.Ok(rule, "invariant:"+f, "-", "stored only by the constructor")
		} else {
			r.Bad(rule, "invariant:"+f, "-", "%s is also stored by %v but not reset per session", f, stores)
		}
	}
	// off: only 0 is ever stored on the print path
	{
		bad := ""
		for fn := range tree {
			for _, fs := range fieldStores(fn) {
				if fs.Struct == "PrintCtx" && fs.Field == "off" {
					if v, isC := constInt(fs.Val); !isC || v != 0 {
						bad = fmt.Sprintf("%s stores a non-zero read offset at %s", shortName(fn), p.Pos(instrPos(fs.Instr)))
					}
				}
			}
		}
		if bad == "" {
			exempt["off"] = "every store to the read offset on the print path stores 0 (its initial value); the reading API is not on the print path"
			r.Ok(rule, "invariant:off", "-", "only 0 is stored to the read offset on the print path")
		} else {
			r.Bad(rule, "invariant:off", "-", "%s: the next record's Bytes() would start at a stale offset", bad)
		}
	}
	// lastRead: only matters to Unread*, which are not on the print path
	{
		onPath := false
		for fn := range tree {
			if nm(fn) == "UnreadByte" || nm(fn) == "UnreadRune" {
				onPath = true
			}
		}
		if !onPath {
			exempt["lastRead"] = "consulted only to validate Unread*, which the print path never calls; it does not influence emitted bytes"
		}
	}
	// prefix: saved at entry and restored
	if sa := p.Func(p.Slog, "serializeAttrs"); sa != nil {
		var saved ssa.Value
		for _, in := range sa.Blocks[0].Instrs {
			if u, ok := in.(*ssa.UnOp); ok {
				if f, ok := pcField(u.X); ok && f == "prefix" {
					saved = u
				}
			}
		}
		ok := saved != nil
		why := "serializeAttrs does not load the dotted-key prefix at entry"
		if ok {
			// every store of another value must be followed by a restore on every path to the loop latch / return
			var restores, others []*ssa.Store
			for _, b := range sa.Blocks {
				for _, in := range b.Instrs {
					if st, isS := in.(*ssa.Store); isS {
						if f, isF := pcField(st.Addr); isF && f == "prefix" {
							if st.Val == saved {
								restores = append(restores, st)
							} else {
								others = append(others, st)
							}
						}
					}
				}
			}
			isRestoreBlock := func(b *ssa.BasicBlock) bool {
				for _, rs := range restores {
					if rs.Block() == b {
						return true
					}
				}
				return false
			}
			rets, _ := exitBlocks(sa)
			for _, o := range others {
				for _, rb := range rets {
					if !isRestoreBlock(o.Block()) || !after(o, restoreIn(restores, o.Block())) {
						if reachAvoiding(o.Block(), rb, isRestoreBlock) && !restoreLater(restores, o) {
							ok, why = false, "a store to the prefix at "+p.Pos(instrPos(o))+" can reach the function's return without the saved prefix being restored"
						}
					}
				}
				// and must not survive into the next loop iteration: the block of o reaches the loop header only through a restore
			}
			if len(restores) == 0 && len(others) > 0 {
				ok, why = false, "the prefix is changed but never restored"
			}
		}
		// other functions storing prefix
		for fn := range tree {
			if fn == sa {
				continue
			}
			for _, fs := range fieldStores(fn) {
				if fs.Struct == "PrintCtx" && fs.Field == "prefix" {
					if shortName(fn) == "kvp.SerializeValueTo" {
						if s, isC := constString(fs.Val); isC && s == "" {
							continue // resets to the inter-session value; its callers (serializeAttrs) restore afterwards
						}
					}
					ok, why = false, shortName(fn)+" changes the prefix without the save/restore discipline"
				}
			}
		}
		if ok {
			exempt["prefix"] = "session-balanced: saved at entry of serializeAttrs and restored after every element, so it is \"\" between sessions"
			r.Ok(rule, "invariant:prefix", p.FuncPos(sa), "saved at entry and restored after every element")
		} else {
			r.Bad(rule, "invariant:prefix", p.FuncPos(sa), "%s", why)
		}
	}
	exempt["cachedSource"] = "accessed by address only; every read is preceded by Source.Extract in the same function (checked below)"
	// cachedSource: in every function of the tree, loads of cachedSource's subfields are preceded by a call of Extract
	{
		bad := ""
		for fn := range tree {
			var extracts []ssa.Instruction
			var reads []ssa.Instruction
			for _, b := range fn.Blocks {
				for _, in := range b.Instrs {
					fa, ok := in.(*ssa.FieldAddr)
					if !ok {
						continue
					}
					if f, ok := pcField(fa); ok && f == "cachedSource" {
						for _, ref := range *fa.Referrers() {
							switch x := ref.(type) {
							case ssa.CallInstruction:
								if cal := calleeOf(x); cal != nil && nm(cal) == "Extract" {
									extracts = append(extracts, x)
								} else {
									reads = append(reads, x)
								}
							case *ssa.FieldAddr:
								for _, r2 := range *x.Referrers() {
									if u, ok := r2.(*ssa.UnOp); ok {
										reads = append(reads, u)
									}
								}
							case *ssa.UnOp:
								reads = append(reads, x)
							}
						}
					}
				}
			}
			for _, rd := range reads {
				dom := false
				for _, ex := range extracts {
					if ex.Block() == rd.Block() && after(ex, rd) && !inLoopBefore(ex, rd) {
						dom = true
					} else if ex.Block() != rd.Block() && ex.Block().Dominates(rd.Block()) {
						dom = true
					}
				}
				if !dom {
					bad = fmt.Sprintf("%s reads cachedSource at %s without extracting it first in this session", shortName(fn), p.Pos(instrPos(rd)))
				}
			}
		}
		if bad == "" {
			r.Ok(rule, "invariant:cachedSource", "-", "every read of the cached source is dominated by Source.Extract in the same function")
		} else {
			delete(exempt, "cachedSource")
			r.Bad(rule, "invariant:cachedSource", "-", "%s", bad)
		}
	}

	for _, mode := range modes {
		res := analyzePooled(p, tree, mode)
		for _, entry := range entries {
			for _, f := range fields {
				key := fmt.Sprintf("field:%s[%s]", f, mode)
				w := res.R[entry][f]
				if w == nil {
					r.Ok(rule, key, p.FuncPos(entry), "never read before this session wrote it (session entry %s, %d functions analysed)", shortName(entry), len(res.Fns))
					continue
				}
				if why, ok := exempt[f]; ok {
					r.Ok(rule, key, p.Pos(w.Pos), "read before written in %s, justified: %s", shortName(w.Fn), why)
					continue
				}
				r.Bad(rule, key, p.Pos(w.Pos), "in %s mode %s can read PrintCtx.%s before this session has written it: the value is whatever the previous record formatted with this pooled object left there", mode, shortName(w.Fn), f)
			}
		}
	}
	// R09.3
	if rule == "R09.1" {
		set := p.Method(p.Slog, "PrintCtx", "set")
		if set == nil {
			r.Unk("R09.3", "PrintCtx.set", "-", "not found")
		} else {
			res := analyzePooled(p, tree, feasibleModes[0])
			must := []string{"jsonMode", "noColor", "layout", "utcTime", "valueStringer", "clr", "bg", "lvl", "msg", "kvps", "now", "stackFrame"}
			for _, f := range must {
				r.Check(res.W[set][f], "R09.3", "set:"+f, p.FuncPos(set), "definitely assigned by set()/setentry() on every path", "PrintCtx."+f+" is not assigned on every path of set()/setentry(): it keeps the previous record's value on some path")
			}
			// and from the call's own arguments / the logger
			for _, fs := range fieldStores(set) {
				if fs.Struct != "PrintCtx" {
					continue
				}
				if _, isParam := fs.Val.(*ssa.Parameter); !isParam {
					r.Bad("R09.3", "set:"+fs.Field+":source", p.Pos(instrPos(fs.Instr)), "set() assigns %s from %s, not from the call's own argument", fs.Field, m.valDesc(fs.Val))
				}
			}
		}
	}
}

func restoreIn(restores []*ssa.Store, b *ssa.BasicBlock) ssa.Instruction {
	for _, r := range restores {
		if r.Block() == b {
			return r
		}
	}
	return nil
}

// restoreLater: a restore store follows o in the same block.
func restoreLater(restores []*ssa.Store, o *ssa.Store) bool {
	seen := false
	for _, in := range o.Block().Instrs {
		if in == ssa.Instruction(o) {
			seen = true
			continue
		}
		if seen {
			for _, r := range restores {
				if in == ssa.Instruction(r) {
					return true
				}
			}
		}
	}
	return false
}

func inLoopBefore(a, b ssa.Instruction) bool { return false }

func c09Globals(c *Ctx, p *Prog, m *Model) {
	r := c.R
	tree := printTree(p, m)
	var fns []*ssa.Function
	for fn := range tree {
		fns = append(fns, fn)
	}
	sort.Slice(fns, func(i, j int) bool { return shortName(fns[i]) < shortName(fns[j]) })
	n := 0
	for _, fn := range fns {
		if len(fn.Blocks) == 0 {
			continue
		}
		var probs []string
		for _, gs := range globalStores(fn) {
			probs = append(probs, fmt.Sprintf("stores to package variable %s (%s) at %s", nm(gs.G), gs.Kind, p.Pos(instrPos(gs.Instr))))
		}
		for _, cs := range callsIn(fn) {
			args := cs.Common().Args
			if len(args) == 0 {
				continue
			}
			g, ok := args[0].(*ssa.Global)
			if !ok {
				continue
			}
			cal := calleeOf(cs)
			name := ""
			if cal != nil {
				name = cal.String()
			}
			switch {
			case (nm(g) == "poolPrintCtx" || nm(g) == "poolAttrs") && (name == "(*sync.Pool).Get" || name == "(*sync.Pool).Put"):
			case nm(g) == "fixedSize" && strings.HasPrefix(name, "sync/atomic."):
			default:
				if g.Pkg == p.Slog || g.Pkg == p.Times || g.Pkg == p.Strs {
					// a method call on a package-level object: may remember something across records
					if cal != nil && cal.Signature.Recv() != nil {
						probs = append(probs, fmt.Sprintf("calls %s on package-level object %s at %s", name, nm(g), p.Pos(instrPos(cs))))
					}
				}
			}
		}
		n++
		r.Check(len(probs) == 0, "R09.2", "fn:"+shortName(fn), p.FuncPos(fn), "keeps nothing in package-level state", "history can be carried over: "+strings.Join(probs, "; "))
	}
	// the size hint only sizes a fresh slice
	if nf := p.Func(p.Slog, "newFixedAttrs"); nf != nil {
		ok := false
		for _, b := range nf.Blocks {
			for _, in := range b.Instrs {
				if ms, isM := in.(*ssa.MakeSlice); isM {
					if l, isC := constInt(ms.Len); isC && l == 0 {
						ok = true
					}
				}
			}
		}
		r.Check(ok, "R09.2", "fixedSize:use", p.FuncPos(nf), "the size hint only sets the capacity of a fresh, empty slice", "the pooled attribute slice is not created empty")
	}
	// the attribute slice goes back to the pool emptied
	pa := p.Global(p.Slog, "poolAttrs")
	for _, fn := range fns {
		for _, cs := range callsIn(fn) {
			if cal := calleeOf(cs); cal != nil && cal.String() == "(*sync.Pool).Put" && cs.Common().Args[0] == ssa.Value(pa) && !p.startupOnly(fn) {
				v := strip(cs.Common().Args[1])
				ok := false
				for _, s := range sources(v) {
					if u, isU := s.(*ssa.UnOp); isU {
						// load of the local cell: what was stored last
						if al, isA := u.X.(*ssa.Alloc); isA {
							for _, ref := range *al.Referrers() {
								if st, isS := ref.(*ssa.Store); isS && st.Block() == cs.Block() {
									if sl, isSl := st.Val.(*ssa.Slice); isSl {
										if hv, isC := constInt(sl.High); isC && hv == 0 {
											ok = true
										}
									}
								}
							}
						}
					}
					if sl, isSl := s.(*ssa.Slice); isSl {
						if hv, isC := constInt(sl.High); isC && hv == 0 {
							ok = true
						}
					}
				}
				r.Check(ok, "R09.2", "poolAttrs:put:"+shortName(fn), p.Pos(instrPos(cs)), "the attribute slice is emptied ([:0]) before it goes back to the pool", "the pooled attribute slice is returned to the pool without being emptied: the next record starts with this record's attributes")
			}
		}
	}
}

// c09Capacity: R09.4 — how much room a recycled buffer happens to have left is history (it depends on the records
// formatted before): it may decide WHERE bytes are put (the buffer API's own grow-or-reslice logic), never WHAT is
// written. Outside the buffer API (the methods ported from bytes.Buffer and the package's grow helpers) no branch
// condition on the print path depends on cap()/len() of the pooled buffer or on the "did it fit" result of
// tryGrowByReslice.
func c09Capacity(c *Ctx, p *Prog, m *Model) {
	r := c.R
	bufAPI := map[string]bool{"tryGrowByReslice": true, "grow": true, "Grow": true, "PreAlloc": true, "growSlice": true,
		"Write": true, "WriteString": true, "WriteByte": true, "WriteRune": true, "ReadFrom": true, "WriteTo": true, "Truncate": true, "Reset": true,
		"Read": true, "ReadByte": true, "ReadRune": true, "ReadBytes": true, "ReadString": true, "readSlice": true, "Next": true, "UnreadByte": true, "UnreadRune": true,
		"Len": true, "Cap": true, "Available": true, "AvailableBuffer": true, "Bytes": true, "String": true, "empty": true}
	var probs []string
	n := 0
	for fn := range printTree(p, m) {
		if fn.Signature.Recv() != nil && typeName(fn.Signature.Recv().Type()) == "PrintCtx" && bufAPI[fn.Name()] {
			continue
		}
		isCapacity := func(v ssa.Value) bool {
			seen := map[ssa.Value]bool{}
			var walk func(v ssa.Value, d int) bool
			walk = func(v ssa.Value, d int) bool {
				if v == nil || seen[v] || d > 6 {
					return false
				}
				seen[v] = true
				switch x := v.(type) {
				case *ssa.Call:
					if isBuiltinCall(x, "cap") {
						if _, ok := isFieldLoadOf(strip(x.Common().Args[0]), "PrintCtx", "buf"); ok {
							return true
						}
					}
					if cal := calleeOf(x); cal != nil && cal.Signature.Recv() != nil && typeName(cal.Signature.Recv().Type()) == "PrintCtx" {
						switch cal.Name() {
						case "tryGrowByReslice", "Cap", "Available":
							return true
						}
					}
					return false
				case *ssa.Extract:
					return walk(x.Tuple, d+1)
				case *ssa.BinOp:
					return walk(x.X, d+1) || walk(x.Y, d+1)
				case *ssa.UnOp:
					return walk(x.X, d+1)
				case *ssa.Phi:
					for _, e := range x.Edges {
						if walk(e, d+1) {
							return true
						}
					}
				}
				return false
			}
			return walk(v, 0)
		}
		for _, b := range fn.Blocks {
			if iff := ifOf(b); iff != nil {
				n++
				if isCapacity(iff.Cond) {
					probs = append(probs, fmt.Sprintf("%s branches on the spare room of the pooled buffer at %s", shortName(fn), p.Pos(instrPos(iff))))
				}
			}
		}
	}
	sort.Strings(probs)
	r.Check(len(probs) == 0, "R09.4", "capacity-independent", "-", fmt.Sprintf("no branch outside the buffer API depends on the room left in the pooled buffer (%d branches scanned)", n), strings.Join(dedupStr(probs), "; ")+": which path a record takes (and so possibly its bytes) depends on how large the records formatted earlier with the same pooled buffer were")
}
