package main

import (
	"go/types"
	"sort"
	"strings"

	"golang.org/x/tools/go/ssa"
)

// SGR typestate (part of E5, colored mode): states {clean, on}. Every write of a constant
// to a writer on the print path is an event: a constant whose last SGR sequence is the
// reset "\x1b[0m" leaves the stream clean, any other "\x1b[" switches a colour on, a '\n'
// inside a constant (or the separator of strings.Join) is a line break and must happen in
// the clean state. All writers of the print session are treated as one stream: a wrapper
// that builds a coloured string and the WriteString of that string are adjacent in this
// code base, so their events can be attributed to the wrapper's call. Functions get
// summaries (entry state -> set of exit states + line breaks seen while possibly on),
// computed to a fixpoint over loops and recursion. Non-constant payloads (message text,
// escaped values) are assumed free of escape bytes, as the property does.

type sgrState uint8 // bit 0: clean possible, bit 1: on possible

const (
	sgrClean sgrState = 1
	sgrOn    sgrState = 2
)

type sgrViolation struct {
	Fn   *ssa.Function
	Pos  ssa.Instruction
	What string
}

type sgrSummary struct {
	exit [3]sgrState // indexed by entry state (1 or 2)
	done bool
}

type sgrAnalyzer struct {
	mr      *ModeReach
	sum     map[*ssa.Function]*sgrSummary
	viol    map[string]sgrViolation
	depth   int
	extra   map[*ssa.Function]bool // dependency functions analysed (term/color)
	nEv     int
	record  bool
	entries map[*ssa.Function]sgrState
}

func newSGR(mr *ModeReach) *sgrAnalyzer {
	return &sgrAnalyzer{mr: mr, sum: map[*ssa.Function]*sgrSummary{}, viol: map[string]sgrViolation{}, extra: map[*ssa.Function]bool{}}
}

// constEffect folds the events of a constant payload into the state; reports a line break while on.
func constEffect(text string, st sgrState) (sgrState, bool) {
	bad := false
	i := 0
	for i < len(text) {
		switch {
		case strings.HasPrefix(text[i:], "\x1b[0m"):
			st = sgrClean
			i += 4
		case strings.HasPrefix(text[i:], "\x1b["):
			st = sgrOn
			i += 2
		case text[i] == '\n':
			if st&sgrOn != 0 {
				bad = true
			}
			i++
		default:
			i++
		}
	}
	return st, bad
}

func (a *sgrAnalyzer) analysable(fn *ssa.Function) bool {
	if fn == nil || len(fn.Blocks) == 0 {
		return false
	}
	if a.mr.Has(fn) {
		return true
	}
	pk := fn.Pkg
	if pk == nil && fn.Parent() != nil {
		pk = fn.Parent().Pkg
	}
	if pk != nil && pk.Pkg.Path() == "github.com/hedzr/is/term/color" {
		// colour helpers of the dependency write the escape sequences themselves; the markup translator is text
		if strings.Contains(nm(fn), "ranslate") || fn.Signature.Recv() != nil {
			return false
		}
		return true
	}
	return false
}

func (a *sgrAnalyzer) blocksOf(fn *ssa.Function) map[*ssa.BasicBlock]bool {
	if fb := a.mr.Blocks[fn]; fb != nil {
		return fb
	}
	// dependency function: colour mode is on (IsNoColorMode() false is the interesting case); all blocks feasible
	out := map[*ssa.BasicBlock]bool{}
	for _, b := range fn.Blocks {
		out[b] = true
	}
	return out
}

// transfer applies fn to the entry state.
func (a *sgrAnalyzer) transfer(fn *ssa.Function, entry sgrState) sgrState {
	var out sgrState
	for _, e := range []sgrState{sgrClean, sgrOn} {
		if entry&e == 0 {
			continue
		}
		s := a.sum[fn]
		if s == nil {
			s = &sgrSummary{}
			a.sum[fn] = s
		}
		out |= s.exit[e]
	}
	return out
}

// run computes summaries to a fixpoint starting from root.
func (a *sgrAnalyzer) run(root *ssa.Function) sgrState {
	for round := 0; round < 80; round++ {
		changed := false
		var fns []*ssa.Function
		for fn := range a.sum {
			fns = append(fns, fn)
		}
		if a.sum[root] == nil {
			a.sum[root] = &sgrSummary{}
			fns = append(fns, root)
		}
		sort.Slice(fns, func(i, j int) bool { return fns[i].String() < fns[j].String() })
		nBefore := len(a.sum)
		for _, fn := range fns {
			for _, e := range []sgrState{sgrClean, sgrOn} {
				ex := a.analyzeFn(fn, e)
				if ex|a.sum[fn].exit[e] != a.sum[fn].exit[e] {
					a.sum[fn].exit[e] |= ex
					changed = true
				}
			}
		}
		if len(a.sum) != nBefore {
			changed = true
		}
		if !changed && round > 0 {
			break
		}
	}
	// final pass with the complete summaries: now line breaks in a coloured state are recorded
	a.record = true
	a.nEv = 0
	a.entries = map[*ssa.Function]sgrState{root: sgrClean}
	processed := map[*ssa.Function]sgrState{}
	for changed := true; changed; {
		changed = false
		var fns []*ssa.Function
		for fn := range a.entries {
			fns = append(fns, fn)
		}
		sort.Slice(fns, func(i, j int) bool { return fns[i].String() < fns[j].String() })
		for _, fn := range fns {
			for _, e := range []sgrState{sgrClean, sgrOn} {
				if a.entries[fn]&e != 0 && processed[fn]&e == 0 {
					processed[fn] |= e
					a.analyzeFn(fn, e)
					changed = true
				}
			}
		}
	}
	return a.sum[root].exit[sgrClean]
}

func (a *sgrAnalyzer) note(fn *ssa.Function, in ssa.Instruction, what string) {
	if !a.record {
		return
	}
	key := fn.String() + "|" + what
	if _, ok := a.viol[key]; !ok {
		a.viol[key] = sgrViolation{fn, in, what}
	}
}

// analyzeFn runs a may-analysis over fn's feasible blocks from one entry state.
func (a *sgrAnalyzer) analyzeFn(fn *ssa.Function, entry sgrState) sgrState {
	fb := a.blocksOf(fn)
	in := map[*ssa.BasicBlock]sgrState{fn.Blocks[0]: entry}
	var exit sgrState
	for iter := 0; iter < 30; iter++ {
		changed := false
		for _, b := range fn.Blocks {
			if !fb[b] || in[b] == 0 {
				continue
			}
			st := in[b]
			for _, ins := range b.Instrs {
				if st == 0 {
					break
				}
				st = a.step(fn, ins, st)
				if _, ok := ins.(*ssa.Return); ok {
					exit |= st
				}
			}
			var succs []*ssa.BasicBlock
			if a.mr.Blocks[fn] != nil {
				if a.mr.Production {
					succs = productionSuccs(a.mr.Mode)(b)
				} else {
					succs = feasibleSuccs(b, a.mr.Mode)
				}
			} else {
				succs = b.Succs
				// dependency helpers: the process-wide "no colour at all" switch is outside the property's configurations; taken as off
				if iff := ifOf(b); iff != nil {
					cond, neg := normCond(iff.Cond)
					if call, ok := cond.(*ssa.Call); ok && invokeName(call) == "IsNoColorMode" {
						if neg {
							succs = b.Succs[:1]
						} else {
							succs = b.Succs[1:2]
						}
					}
				}
			}
			for _, s := range succs {
				if in[s]|st != in[s] {
					in[s] |= st
					changed = true
				}
			}
		}
		if !changed {
			break
		}
	}
	return exit
}

func (a *sgrAnalyzer) step(fn *ssa.Function, ins ssa.Instruction, st sgrState) sgrState {
	cs, ok := ins.(ssa.CallInstruction)
	if !ok {
		return st
	}
	if _, isDefer := ins.(*ssa.Defer); isDefer {
		return st
	}
	cc := cs.Common()
	cal := calleeOf(cs)
	name := invokeName(cs)
	if cal != nil {
		name = nm(cal)
	}
	// primitive writes
	switch name {
	case "Write", "WriteString", "WriteByte", "WriteRune", "pcAppendByte", "pcAppendString", "pcAppendStringValue", "pcAppendRune":
		if len(cc.Args) > 0 {
			arg := cc.Args[len(cc.Args)-1]
			var texts []string
			if s, ok := constString(arg); ok {
				texts = []string{s}
			} else if v, ok := constInt(arg); ok {
				texts = []string{string(rune(v))}
			} else if a.mr.Blocks[fn] != nil {
				// a value picked among constants (phi): each pick is an event
				if ts, ok := a.mr.constTexts(arg, basicKindIsInt(arg)); ok {
					texts = ts
				}
			}
			if len(texts) > 0 {
				a.nEv++
				var out sgrState
				for _, text := range texts {
					ns, bad := constEffect(text, st)
					if bad {
						a.note(fn, ins, "a line break is written while a colour may still be switched on")
					}
					out |= ns
				}
				return out
			}
		}
		if cal != nil && a.analysable(cal) && (name == "pcAppendString" || name == "pcAppendStringValue") {
			return st // non-constant text
		}
		return st
	}
	if cal != nil && cal.String() == "strings.Join" && len(cc.Args) == 2 {
		if s, ok := constString(cc.Args[1]); ok {
			ns, bad := constEffect(s, st)
			if bad {
				a.note(fn, ins, "lines are joined by a line break while a colour may still be switched on")
			}
			return ns
		}
	}
	// calls
	var targets []*ssa.Function
	if cal != nil && a.mr.M.SinkFns[cal] {
		return st // the finished payload is handed to the destination; a nested diagnostic record is another stream
	}
	if cal != nil {
		targets = append(targets, cal)
	} else if name == "SerializeValueTo" {
		for _, tn := range []string{"kvp", "gkvp", "Attrs"} {
			if f := a.mr.P.Method(a.mr.P.Slog, tn, name); f != nil {
				targets = append(targets, f)
			}
		}
	} else if cc.Value != nil {
		// call of a function value: closures bound to this parameter at the call sites of fn
		if prm, ok := cc.Value.(*ssa.Parameter); ok {
			idx := -1
			for i, q := range fn.Params {
				if q == prm {
					idx = i
				}
			}
			for _, site := range a.mr.M.Callers[fn] {
				if idx >= 0 && idx < len(site.Common().Args) {
					if mc, ok := site.Common().Args[idx].(*ssa.MakeClosure); ok {
						targets = append(targets, mc.Fn.(*ssa.Function))
					}
				}
			}
		}
	}
	var out sgrState
	any := false
	for _, t := range targets {
		if !a.analysable(t) {
			continue
		}
		any = true
		if a.entries != nil {
			a.entries[t] |= st
		}
		if a.sum[t] == nil {
			a.sum[t] = &sgrSummary{}
		}
		out |= a.transfer(t, st)
	}
	if !any {
		return st
	}
	// out == 0: summary not yet computed (bottom); the fixpoint iteration fills it in later rounds
	return out
}

// reached: entry state e of fn actually occurs (computed by propagating from the root in the clean state).
func (a *sgrAnalyzer) reached(fn *ssa.Function, e sgrState) bool {
	if a.entries == nil {
		return true
	}
	return a.entries[fn]&e != 0
}

func basicKindIsInt(v ssa.Value) bool {
	b, ok := v.Type().Underlying().(*types.Basic)
	return ok && b.Info()&types.IsInteger != 0
}
