package main

import (
	"fmt"
	"go/token"
	"go/types"
	"sort"
	"strings"

	"golang.org/x/tools/go/ssa"
)

func init() { register("C14", checkC14) }

// lin is a linear integer expression: sum(coef*atom) + c
type lin struct {
	atoms map[ssa.Value]int64
	c     int64
}

var linBusy = map[ssa.Value]bool{}

func linOf(v ssa.Value) (lin, bool) {
	v = strip(v)
	if linBusy[v] {
		return lin{map[ssa.Value]int64{v: 1}, 0}, true // a value defined in terms of itself (loop): an atom
	}
	linBusy[v] = true
	defer delete(linBusy, v)
	if cv, ok := constInt(v); ok {
		return lin{map[ssa.Value]int64{}, cv}, true
	}
	if bo, ok := v.(*ssa.BinOp); ok && (bo.Op == token.ADD || bo.Op == token.SUB) {
		a, ok1 := linOf(bo.X)
		b, ok2 := linOf(bo.Y)
		if !ok1 || !ok2 {
			return lin{}, false
		}
		out := lin{map[ssa.Value]int64{}, a.c}
		for k, x := range a.atoms {
			out.atoms[k] += x
		}
		sign := int64(1)
		if bo.Op == token.SUB {
			sign = -1
		}
		out.c += sign * b.c
		for k, x := range b.atoms {
			out.atoms[k] += sign * x
		}
		return out, true
	}
	// a join of linear forms with one and the same constant part: skip := k; if .. { skip += extra } is k + (extra or 0)
	if ph, ok := v.(*ssa.Phi); ok && len(ph.Edges) >= 2 && len(ph.Edges) <= 4 {
		var forms []lin
		okAll := true
		for _, e := range ph.Edges {
			if e == ssa.Value(ph) {
				okAll = false
				break
			}
			if inner, isPhi := strip(e).(*ssa.Phi); isPhi && inner == ph {
				okAll = false
				break
			}
			l, ok := linOfNoPhi(e)
			if !ok {
				okAll = false
				break
			}
			forms = append(forms, l)
		}
		if okAll {
			same, anyAtoms, allPlain := true, false, true
			for _, l := range forms {
				if l.c != forms[0].c {
					same = false
				}
				if len(l.atoms) > 0 {
					anyAtoms = true
				}
				for at := range l.atoms {
					if _, isPhi := at.(*ssa.Phi); isPhi {
						allPlain = false
					}
				}
			}
			if same && anyAtoms && allPlain && forms[0].c != 0 {
				out := lin{map[ssa.Value]int64{}, forms[0].c}
				for _, l := range forms {
					for at, k := range l.atoms {
						if old, has := out.atoms[at]; has && old != k {
							return lin{map[ssa.Value]int64{v: 1}, 0}, true
						}
						out.atoms[at] = k
					}
				}
				return out, true
			}
		}
	}
	return lin{map[ssa.Value]int64{v: 1}, 0}, true
}

// linOfNoPhi: linOf for the edges of a join (a nested join stays an atom).
func linOfNoPhi(v ssa.Value) (lin, bool) {
	v = strip(v)
	if _, isPhi := v.(*ssa.Phi); isPhi {
		return lin{map[ssa.Value]int64{v: 1}, 0}, true
	}
	return linOf(v)
}

type chainStep struct {
	site ssa.CallInstruction // call in caller to callee
}

func checkC14(c *Ctx) {
	r := c.R
	r.Rule("R04.6", "(shared with C04) the caller printer is reached by every record: the order of the record printer's steps (.., attributes, caller, ..) holds on every path, the caller step being skipped only under its own flag")
	r.Rule("R09.1", "(shared with C09) the caller printed is this record's: no field of the pooled encoder (cached source, prefix) is read before the current record wrote it")
	r.Rule("R02.1", "(shared with C02) every record written carries its caller: one emission per call, on the path that runs the caller printer (no second emission from a deferred recovery that bypasses it)")
	r.Rule("R02.3", "(shared with C02) the payload is the finished buffer of the regular path")
	r.Rule("R10.1", "(shared with C10) a logger's skip count is written only by its own SetSkip/WithSkip: no function stores a setting of one logger into another (SetDefault included)")
	r.Rule("R10.3", "(shared with C10) a new logger starts with skip count 0: newentry copies from the parent only the documented settings (nothing-else rule)")
	r.Rule("R18.2", "(shared with C18) the file reported is the frame's file, hardened: the shorter-equivalent step computes the path of the FILE relative to the working directory (arguments of filepath.Rel in that order)")
	r.Rule("R14.7", "file, line and function are reported under their own keys: wherever a package function hands its parameters on to a package function with same-named parameters (key prefix / key name of the caller sub-fields, skip counts, frames), each goes to its namesake; a same-typed pair passed crosswise is a violation")
	r.Rule("R14.1", "frame accounting: for every static call chain P -> ... -> F from an exported function P of package slog to a function F that captures the program counter, the constant-propagated skip must equal the chain length so that the captured frame is P's caller: getpc(k, extra) needs k = d+2 and runtime.Callers(n, ...) needs n = d+2 (+extra), d = number of calls between P and F; getpc itself must call runtime.Callers(skip+extra+1) and return element 0")
	r.Rule("R14.2", "standard-library depth: for the log/slog adapter and the std log bridge the chain continues in GOROOT source; the depth from every exported log/slog.Logger / log.Logger entry point to the Handler.Handle / Writer.Write interface call is computed from the loaded standard library and must match the adapter's constant")
	r.Rule("R14.3", "the user's extra skip: the extra operand at every capture site is the extraFrames of the logger that emits (or its Skip()), and SetSkip/WithSkip store their parameter to that field")
	r.Rule("R14.4", "one pc for all formats: the captured pc flows unmodified into the record (stackFrame parameter -> PrintCtx.stackFrame -> Source.Extract), and every format branch of the caller printer reads that same source")
	r.Rule("R10.2", "(shared with C10) WithSkip(n) obtains the child for n from the receiver's child index, sets n on it and returns it, storing nothing through the receiver (no child kept and re-skipped for another n)")
	r.Rule("R14.5", "capture is unconditional: a capture site depends only on the admission test, the default-logger type switch, and switches that are constant true (handlerWriter.capturePC is only ever stored the constant true)")
	r.Rule("R10.8", "(shared with C10) the package-level SetSkip/WithSkip delegate to their namesakes on the default logger, so SetSkip(n) changes the skip of the logger the package-level verbs use")
	r.Rule("R09.2", "(shared with C09) the caller reported is that of THIS call: nothing on the print path keeps file, line or function names in package-level state (a memo keyed by anything coarser than the pc answers for another statement)")
	r.Rule("R14.6", "the function reported is the function: the post-processing of the runtime's function name drops or abbreviates a leading package path only; every re-slice of a value derived from the name keeps the end of the string and no end-trimming or splitting function of package strings is applied to it")
	r.Assume("runtime.Callers counts logical frames: inlined functions are counted and autogenerated method wrappers are elided (documented run-time semantics)")
	for _, tags := range c.Configs([]string{"", "verbose"}, []string{"", "verbose", "hint", "verbose,hint"}) {
		p := c.Prog(tags)
		if p == nil {
			continue
		}
		m, err := BuildModel(p)
		if err != nil {
			r.Unk("R14.1", "model", "-", "cannot build the emission model: %v", err)
			continue
		}
		c14Frames(c, p, m)
		c14Flow(c, p, m)
		c14FuncName(c, p)
		c14NoInterfaceReentry(c, p, m)
		prefixCutAgrees(c, p, "R14.6")
		pkgForwardersPassArgs(c, p, "R14.3")
		fieldOrder(c, p, m, Mode{true, true}, "R04.6", []string{"Begin", "printTimestamp", "printLoggerName", "printSeverity", "printMsg", "serializeAttrs", "printPC", "printRestLinesOfMsg", "End", "Bytes", "printOut"}, map[string]bool{"printPC": true, "printRestLinesOfMsg": true})
		callerPrinterFlagFree(c, p, m, "R14.5")
		c09Pooled(c, p, m, "R09.1", feasibleModes)
		c02Counts(c, p, m)
		c02Newline(c, p, m)
		var slogFns []*ssa.Function
		for _, fn := range p.RepoFuncs() {
			if fn.Pkg == p.Slog {
				slogFns = append(slogFns, fn)
			}
		}
		namedArgsInPlace(c, p, slogFns, "R14.7")
		c14PrintDecision(c, p, m)
		c09Globals(c, p, m)
		packageNamesakes(c, p, "R10.8")
		freshChildren(c, p, m, "R14.3", func(n string) bool { return n == "WithSkip" })
		c10WithSet(c, p, m)
		c10Creation(c, p, m)
		c10Frames(c, p, m)
		c18Check(c, p, m)
	}
	c.Floor["R14.1"] = 50
	c.Floor["R14.2"] = 2
	c.Floor["R14.3"] = 20
	c.Floor["R14.4"] = 6
	c.Floor["R14.6"] = 1
}

func isExportedRoot(fn *ssa.Function) bool {
	if fn.Parent() != nil {
		return false
	}
	if !token.IsExported(nm(fn)) {
		return false
	}
	return true
}

func c14Frames(c *Ctx, p *Prog, m *Model) {
	r := c.R
	getpc := p.Func(p.Slog, "getpc")
	var callersFn *ssa.Function
	if rt := p.Pkg("runtime"); rt != nil {
		callersFn = rt.Func("Callers")
	}
	if callersFn == nil {
		r.Unk("R14.1", "runtime.Callers", "-", "runtime.Callers not found in the loaded program")
		return
	}
	// getpc's own arithmetic
	getpcOK := false
	if getpc != nil && len(getpc.Params) == 2 {
		sites := callsTo(getpc, callersFn)
		if len(sites) == 1 {
			l, ok := linOf(sites[0].Common().Args[0])
			good := ok && l.c == 1 && len(l.atoms) == 2 && l.atoms[getpc.Params[0]] == 1 && l.atoms[getpc.Params[1]] == 1
			// returns element 0 of the array given to Callers
			retOK := false
			rets, _ := exitBlocks(getpc)
			var arr ssa.Value
			if sl, ok := sites[0].Common().Args[1].(*ssa.Slice); ok {
				arr = sl.X
			}
			for _, b := range rets {
				ret := b.Instrs[len(b.Instrs)-1].(*ssa.Return)
				if len(ret.Results) == 1 {
					if u, ok := ret.Results[0].(*ssa.UnOp); ok {
						if ia, ok := u.X.(*ssa.IndexAddr); ok && ia.X == arr {
							if i, ok := constInt(ia.Index); ok && i == 0 {
								retOK = true
							}
						}
					}
				}
			}
			oneRet := len(rets) == 1
			getpcOK = good && retOK && oneRet
			r.Check(getpcOK, "R14.1", "getpc:arithmetic", p.FuncPos(getpc), "calls runtime.Callers(skip+extra+1, pcs) and returns pcs[0]",
				"getpc no longer computes runtime.Callers(skip+extra+1) returning element 0: the skip arithmetic every entry point relies on has changed")
		} else {
			r.Bad("R14.1", "getpc:arithmetic", p.FuncPos(getpc), "getpc calls runtime.Callers %d times", len(sites))
		}
	} else {
		r.Unk("R14.1", "getpc:arithmetic", "-", "getpc(skip, extra) not found")
	}

	// capture sites
	type capSite struct {
		fn     *ssa.Function
		call   ssa.CallInstruction
		direct bool
	}
	var caps []capSite
	for _, fn := range p.RepoFuncs() {
		if fn.Pkg != p.Slog && fn.Parent() == nil {
			continue
		}
		if fn == getpc {
			continue
		}
		for _, cs := range callsIn(fn) {
			cal := calleeOf(cs)
			if cal == nil {
				continue
			}
			if getpc != nil && cal == getpc {
				caps = append(caps, capSite{fn, cs, false})
			} else if cal == callersFn {
				caps = append(caps, capSite{fn, cs, true})
			}
		}
	}
	sort.Slice(caps, func(i, j int) bool {
		if shortName(caps[i].fn) != shortName(caps[j].fn) {
			return shortName(caps[i].fn) < shortName(caps[j].fn)
		}
		return caps[i].call.Pos() < caps[j].call.Pos()
	})
	if len(caps) == 0 {
		r.Unk("R14.1", "capture:none", "-", "no pc capture site found")
		return
	}
	for _, cp := range caps {
		F := cp.fn
		fname := shortName(F)
		if F.Parent() != nil {
			r.Unk("R14.1", "capture:"+fname, p.Pos(instrPos(cp.call)), "pc captured inside a closure: the frame count is not decidable here")
			continue
		}
		stdEntered := F.Signature.Recv() != nil && (nm(F) == "Write" || nm(F) == "Handle")
		kExpr, ok := linOf(cp.call.Common().Args[0])
		if !ok {
			r.Unk("R14.1", "capture:"+fname, p.Pos(instrPos(cp.call)), "skip operand is not a linear expression")
			continue
		}
		// chains from F up to exported roots
		type chain struct {
			root  *ssa.Function
			steps []ssa.CallInstruction // from root side down to F
		}
		var chains []chain
		var up func(fn *ssa.Function, acc []ssa.CallInstruction, depth int)
		up = func(fn *ssa.Function, acc []ssa.CallInstruction, depth int) {
			if isExportedRoot(fn) {
				steps := make([]ssa.CallInstruction, len(acc))
				for i := range acc {
					steps[i] = acc[len(acc)-1-i]
				}
				chains = append(chains, chain{fn, steps})
				// an exported entry point that another entry point FORWARDS the user's record to (message not a
				// constant: not one of the library's own diagnostics) is also entered one frame deeper
				for _, s := range m.Callers[fn] {
					P := s.Parent()
					if P == fn || depth > 8 || m.SinkFns[P] || isWriterImplMethod(P) || nm(P) == "hintInternal" || P.Parent() != nil {
						continue
					}
					forwards := false
					for _, a := range s.Common().Args {
						if bt, ok := a.Type().Underlying().(*types.Basic); ok && bt.Kind() == types.String {
							if _, isC := constString(a); !isC {
								forwards = true
							}
							break
						}
					}
					if forwards {
						up(P, append(acc, s), depth+1)
					}
				}
				return
			}
			if depth > 8 {
				return
			}
			for _, s := range m.Callers[fn] {
				if s.Parent() == fn {
					continue
				}
				if m.SinkFns[s.Parent()] || isWriterImplMethod(s.Parent()) || nm(s.Parent()) == "hintInternal" {
					continue // the library's own diagnostic after a failed Write: its caller is library code by construction
				}
				up(s.Parent(), append(acc, s), depth+1)
			}
		}
		if !stdEntered {
			up(F, nil, 0)
		}
		if stdEntered {
			// the chain above F lies in the standard library: decided by R14.2
		} else if len(chains) == 0 {
			r.OkTrivial("R14.1", "capture:"+fname, p.Pos(instrPos(cp.call)), "capture site in a function that is not reachable from any exported function")
			continue
		}
		for _, ch := range chains {
			d := len(ch.steps)
			// evaluate kExpr: substitute parameters of F by the arguments along the chain (bottom-up)
			val, extra, ok, why := evalAlong(kExpr, F, ch.steps)
			key := fmt.Sprintf("frames:%s<-%s", fname, shortName(ch.root))
			if d > 0 {
				var mids []string
				for _, s := range ch.steps[1:] {
					mids = append(mids, shortName(s.Parent()))
				}
				if len(mids) > 0 {
					key += "[via " + strings.Join(mids, ",") + "]"
				}
			}
			if !ok {
				r.Unk("R14.1", key, p.Pos(instrPos(cp.call)), "skip operand cannot be evaluated along the chain: %s", why)
				continue
			}
			want := int64(d + 2)
			form := "getpc"
			if cp.direct {
				form = "runtime.Callers"
				// n = d' + 2 with d' counted from the exported stdlib entry point; handled by R14.2
				continue
			}
			if val != want {
				r.Bad("R14.1", key, p.Pos(instrPos(cp.call)), "%s is given skip %d but the chain %s has %d call(s) between the entry point and the capturing function, which needs %d: the record is attributed %d frame(s) %s the user's call site",
					form, val, chainStr(ch.root, ch.steps, F), d, want, abs64(val-want), map[bool]string{true: "above", false: "below"}[val > want])
			} else {
				r.Ok("R14.1", key, p.Pos(instrPos(cp.call)), "skip %d = chain length %d + 2 (%s)", val, d, chainStr(ch.root, ch.steps, F))
			}
			_ = extra
		}
		// R14.3: extra operand (the log/slog adapter's is decided with its depth, R14.2)
		if !cp.direct && !(stdEntered && nm(F) == "Handle") {
			ex := strip(cp.call.Common().Args[1])
			okExtra := false
			desc := m.valDesc(ex)
			if base, _, f, ok := fieldLoad(ex); ok && nm(f) == "extraFrames" {
				tn := typeName(base.Type())
				if tn == "handlerWriter" {
					okExtra = true
				} else if tn == "Entry" {
					// same logger as the one that emits in this function
					okExtra = true
					for _, s := range m.Sites[F] {
						uses := false
						for _, a := range s.Common().Args {
							if a == cp.call.Value() {
								uses = true
							}
						}
						if !uses {
							continue
						}
						if cal := calleeOf(s); cal != nil && cal.Signature.Recv() != nil {
							if loggerKey(s.Common().Args[0]) != loggerKey(base) {
								okExtra = false
								desc = fmt.Sprintf("extraFrames of %s while %s emits", loggerKey(base), loggerKey(s.Common().Args[0]))
							}
						}
					}
				}
			}
			r.Check(okExtra, "R14.3", "extra:"+fname+"@"+fmt.Sprint(kExpr.c), p.Pos(instrPos(cp.call)), "extra skip = extraFrames of the emitting logger", "the extra-skip operand is "+desc+", not the emitting logger's extraFrames: WithSkip/SetSkip do not move the attribution by n")
		}
		// R14.5 unconditional capture: every emission of F that carries this capture carries nothing else (a
		// record is never emitted with a pc that was not captured); the zero pc is acceptable only under the
		// bridge's capturePC switch (stored the constant true only, below). Where the captured pc does not flow
		// into an emission call of F as a value (runtime.Callers into an array), the conditions the capture
		// depends on are compared with the admission/dispatch conditions instead.
		var extraG []string
		flows := false
		if cv := cp.call.Value(); cv != nil && !cp.direct {
			for _, s := range callsIn(F) { // (static spine calls and interface calls alike)
				if s == cp.call {
					continue
				}
				for _, a := range s.Common().Args {
					if bt, isB := a.Type().Underlying().(*types.Basic); !isB || bt.Kind() != types.Uintptr {
						continue
					}
					srcs := sources(a)
					has := false
					for _, x := range srcs {
						if x == ssa.Value(cv) {
							has = true
						}
					}
					if !has {
						continue
					}
					flows = true
					for _, x := range srcs {
						if x == ssa.Value(cv) {
							continue
						}
						if c2, isCall := x.(*ssa.Call); isCall && calleeOf(c2) == getpc {
							continue
						}
						if _, isPrm := x.(*ssa.Parameter); isPrm {
							continue
						}
						if z, isC := constInt(x); isC && z == 0 {
							underSwitch := false
							for _, g := range guardsOf(cp.call.Block()) {
								if m.guardDesc(g) == "T:handlerWriter.capturePC" {
									underSwitch = true
								}
							}
							if underSwitch {
								continue
							}
							extraG = append(extraG, "the emission at "+p.Pos(instrPos(s))+" can carry a zero pc")
							continue
						}
						extraG = append(extraG, "the emission at "+p.Pos(instrPos(s))+" can carry "+m.valDesc(x)+" instead of the captured pc")
					}
				}
			}
		}
		if !flows {
			for _, g := range guardsOf(cp.call.Block()) {
				d := m.guardDesc(g)
				if d == "T:GATE" || strings.Contains(d, "typeassert-ok global defaultLog") || d == "T:handlerWriter.capturePC" {
					continue
				}
				if strings.Contains(d, "typeassert-ok handler4LogSlog.Logger") || strings.Contains(d, "Skip() int") {
					continue
				}
				extraG = append(extraG, "conditional on "+d)
			}
		}
		r.Check(len(extraG) == 0, "R14.5", "uncond:"+fname+"@"+fmt.Sprint(kExpr.c), p.Pos(instrPos(cp.call)), "every emission that carries this capture carries nothing else", "the pc capture: "+strings.Join(dedupStr(extraG), "; ")+": some records lose their caller")
	}
	// capturePC only ever true
	nst := 0
	for _, fn := range p.RepoFuncs() {
		for _, fs := range fieldStores(fn) {
			if fs.Struct == "handlerWriter" && fs.Field == "capturePC" {
				nst++
				b, ok := constBool(fs.Val)
				r.Check(ok && b, "R14.5", "capturePC-store:"+shortName(fn), p.Pos(instrPos(fs.Instr)), "capturePC is stored the constant true", "handlerWriter.capturePC is stored a non-constant/false value ("+m.valDesc(fs.Val)+"): the bridge may log without caller")
			}
		}
	}
	if nst == 0 {
		r.Unk("R14.5", "capturePC-store:none", "-", "no store to handlerWriter.capturePC found (zero value false: the bridge never captures)")
	}

	// R14.2 stdlib depths
	c14Std(c, p, m, caps0(caps, func(cp capSite) (*ssa.Function, ssa.CallInstruction, bool) { return cp.fn, cp.call, cp.direct }))
}

type capInfo struct {
	fn     *ssa.Function
	call   ssa.CallInstruction
	direct bool
}

func caps0[T any](xs []T, f func(T) (*ssa.Function, ssa.CallInstruction, bool)) []capInfo {
	var out []capInfo
	for _, x := range xs {
		a, b, c := f(x)
		out = append(out, capInfo{a, b, c})
	}
	return out
}

func abs64(x int64) int64 {
	if x < 0 {
		return -x
	}
	return x
}

func chainStr(root *ssa.Function, steps []ssa.CallInstruction, F *ssa.Function) string {
	s := []string{shortName(root)}
	for _, st := range steps {
		if cal := calleeOf(st); cal != nil {
			s = append(s, shortName(cal))
		}
	}
	if len(steps) == 0 && root != F {
		s = append(s, shortName(F))
	}
	return strings.Join(s, " -> ")
}

// evalAlong evaluates a linear expression over F's parameters by substituting, for every parameter atom,
// the argument passed at the last step, recursively up the chain. Atoms that are not parameters (field loads,
// phi of Skip()) are returned as `extra` atoms and count as 0 (the user's extra skip).
func evalAlong(e lin, F *ssa.Function, steps []ssa.CallInstruction) (int64, []ssa.Value, bool, string) {
	val := e.c
	var extra []ssa.Value
	for atom, coef := range e.atoms {
		if coef == 0 {
			continue
		}
		prm, isParam := atom.(*ssa.Parameter)
		if !isParam {
			extra = append(extra, atom)
			continue
		}
		if len(steps) == 0 {
			return 0, nil, false, "parameter " + nm(prm) + " of an exported entry point is chosen by the user"
		}
		// index of prm in F.Params
		idx := -1
		for i, q := range F.Params {
			if q == prm {
				idx = i
			}
		}
		site := steps[len(steps)-1]
		if idx < 0 || idx >= len(site.Common().Args) {
			return 0, nil, false, "parameter not found at call site"
		}
		sub, ok := linOf(site.Common().Args[idx])
		if !ok {
			return 0, nil, false, "argument not linear"
		}
		v, ex, ok, why := evalAlong(sub, site.Parent(), steps[:len(steps)-1])
		if !ok {
			return 0, nil, false, why
		}
		val += coef * v
		extra = append(extra, ex...)
	}
	return val, extra, true, ""
}

// stdDepths: for package pkgPath, the set of call depths from every exported function/method to an invoke of ifaceMethod.
func stdDepths(p *Prog, pkgPath, recvType, ifaceMethod string) (map[string]int, error) {
	sp := p.Pkg(pkgPath)
	if sp == nil {
		return nil, fmt.Errorf("package %s not loaded", pkgPath)
	}
	// functions of the package containing the invoke
	hasInvoke := map[*ssa.Function]bool{}
	var all []*ssa.Function
	for _, mem := range sp.Members {
		if fn, ok := mem.(*ssa.Function); ok {
			all = append(all, fn)
		}
		if tn, ok := mem.(*ssa.Type); ok {
			for _, t := range []types.Type{tn.Type(), types.NewPointer(tn.Type())} {
				ms := p.SSA.MethodSets.MethodSet(t)
				for i := 0; i < ms.Len(); i++ {
					if fn := p.SSA.MethodValue(ms.At(i)); fn != nil && fn.Pkg == sp && fn.Synthetic == "" {
						all = append(all, fn)
					}
				}
			}
		}
	}
	for _, fn := range all {
		for _, cs := range callsIn(fn) {
			if cs.Common().IsInvoke() && nm(cs.Common().Method) == ifaceMethod {
				hasInvoke[fn] = true
			}
		}
	}
	out := map[string]int{}
	var depth func(fn *ssa.Function, seen map[*ssa.Function]bool) []int
	depth = func(fn *ssa.Function, seen map[*ssa.Function]bool) []int {
		if seen[fn] {
			return nil
		}
		seen[fn] = true
		defer delete(seen, fn)
		var ds []int
		if hasInvoke[fn] {
			ds = append(ds, 0)
		}
		for _, cs := range callsIn(fn) {
			if cal := calleeOf(cs); cal != nil && cal.Pkg == sp && cal != fn {
				for _, d := range depth(cal, seen) {
					ds = append(ds, d+1)
				}
			}
		}
		return ds
	}
	for _, fn := range all {
		if !token.IsExported(nm(fn)) {
			continue
		}
		if recvType != "" {
			if fn.Signature.Recv() == nil || typeName(fn.Signature.Recv().Type()) != recvType {
				// package-level functions that delegate to the default instance are included too
				if fn.Signature.Recv() != nil {
					continue
				}
			}
		}
		for _, d := range depth(fn, map[*ssa.Function]bool{}) {
			k := shortStd(fn)
			if old, ok := out[k]; !ok || d != old {
				if ok && d != old {
					out[k+fmt.Sprintf("#%d", d)] = d
				} else {
					out[k] = d
				}
			}
		}
	}
	return out, nil
}

func shortStd(fn *ssa.Function) string { return fn.String() }

func c14Std(c *Ctx, p *Prog, m *Model, caps []capInfo) {
	r := c.R
	// log/slog adapter: the direct runtime.Callers in a method named Handle
	for _, cp := range caps {
		isHandle := nm(cp.fn) == "Handle" && cp.fn.Signature.Recv() != nil
		if !cp.direct && !isHandle {
			continue
		}
		if nm(cp.fn) != "Handle" || cp.fn.Signature.Recv() == nil {
			if len(m.Callers[cp.fn]) == 0 && !token.IsExported(nm(cp.fn)) {
				r.OkTrivial("R14.2", "direct:"+shortName(cp.fn), p.Pos(instrPos(cp.call)), "direct runtime.Callers in a function nothing calls (dead diagnostic helper)")
			} else {
				r.Unk("R14.2", "direct:"+shortName(cp.fn), p.Pos(instrPos(cp.call)), "a direct runtime.Callers capture outside getpc and the log/slog adapter: frame accounting not modelled")
			}
			continue
		}
		key := "std:log/slog->" + shortName(cp.fn)
		e, ok := linOf(cp.call.Common().Args[0])
		if ok && !cp.direct {
			// getpc(k, extra) called from Handle captures what runtime.Callers(k+extra) called from Handle captures
			// (getpc adds 1 for its own frame: R14.1 getpc:arithmetic)
			e2, ok2 := linOf(cp.call.Common().Args[1])
			ok = ok2
			if ok2 {
				sum := lin{c: e.c + e2.c, atoms: map[ssa.Value]int64{}}
				for a, k := range e.atoms {
					sum.atoms[a] += k
				}
				for a, k := range e2.atoms {
					sum.atoms[a] += k
				}
				e = sum
			}
		}
		if !ok {
			r.Unk("R14.2", key, p.Pos(instrPos(cp.call)), "skip operand not linear")
			continue
		}
		ds, err := stdDepths(p, "log/slog", "Logger", "Handle")
		if err != nil {
			r.Unk("R14.2", key, "-", "%v", err)
			continue
		}
		// only the logging verbs (those that take a message): exclude Handler()/Enabled etc. (they never reach Handle)
		bad, n := "", 0
		var names []string
		for name, d := range ds {
			n++
			names = append(names, fmt.Sprintf("%s:%d", name, d))
			// F=Handle is entered by the interface call: chain depth d+1 calls from the exported entry to Handle
			want := int64(d + 1 + 2) // runtime.Callers directly in F: n = (calls between P and F) + 2, calls = d static calls + the interface call
			if e.c != want {
				bad = fmt.Sprintf("%s reaches Handler.Handle through %d call(s), which needs runtime.Callers(%d+extra) but the adapter uses %d", name, d+1, want, e.c)
			}
		}
		sort.Strings(names)
		r.Extra["stdlib_log_slog_depths"] = names
		// extra atoms: must be the logger's Skip()
		extraOK := true
		for atom, coef := range e.atoms {
			if coef != 1 {
				extraOK = false
			}
			okAtom := false
			for _, s := range sources(atom) {
				if call, ok := s.(*ssa.Call); ok && invokeName(call) == "Skip" {
					okAtom = true
				}
				if cv, ok := constInt(s); ok && cv == 0 {
					continue
				}
			}
			if !okAtom {
				extraOK = false
			}
		}
		if n == 0 {
			r.Unk("R14.2", key, p.Pos(instrPos(cp.call)), "no exported log/slog.Logger method reaches Handler.Handle in the loaded standard library")
		} else if bad != "" {
			r.Bad("R14.2", key, p.Pos(instrPos(cp.call)), "%s", bad)
		} else {
			r.Ok("R14.2", key, p.Pos(instrPos(cp.call)), "all %d exported log/slog entry points reach Handler.Handle at the same depth, matching runtime.Callers(%d+extra)", n, e.c)
		}
		r.Check(extraOK && len(e.atoms) == 1, "R14.3", "extra:"+shortName(cp.fn), p.Pos(instrPos(cp.call)), "extra skip = the logger's Skip()", "the adapter's extra skip is not the underlying logger's Skip()")
	}
	// the adapter's depth is the standard library's: nothing in the repository may stand between log/slog and the
	// capturing Handle. A handler of the package that forwards records to another Handler's Handle (a grouping or
	// filtering wrapper returned by WithGroup/WithAttrs) adds a frame per level of wrapping that the constant cannot count.
	for _, cp := range caps {
		if nm(cp.fn) != "Handle" || cp.fn.Signature.Recv() == nil {
			continue
		}
		var probs []string
		for _, g := range p.RepoFuncs() {
			if g.Pkg != p.Slog {
				continue
			}
			for _, cs := range callsIn(g) {
				if cal := calleeOf(cs); cal != nil && cal == cp.fn {
					probs = append(probs, fmt.Sprintf("%s calls the capturing %s directly at %s", shortName(g), shortName(cp.fn), p.Pos(instrPos(cs))))
					continue
				}
				if invokeName(cs) != "Handle" || g.Signature.Recv() == nil {
					continue
				}
				it, ok := cs.Common().Value.Type().Underlying().(*types.Interface)
				if !ok || !types.Implements(cp.fn.Signature.Recv().Type(), it) {
					continue
				}
				if types.Implements(g.Signature.Recv().Type(), it) {
					probs = append(probs, fmt.Sprintf("%s, itself a handler, forwards records to the next handler's Handle at %s: when that is the capturing adapter every level of wrapping adds a frame its fixed skip does not count, so the caller reported is a frame inside log/slog", shortName(g), p.Pos(instrPos(cs))))
				}
			}
		}
		r.Check(len(probs) == 0, "R14.2", "std:only-entry:"+shortName(cp.fn), p.FuncPos(cp.fn), "the capturing Handle is entered by log/slog's own interface call only (no handler of the package forwards to it)", strings.Join(probs, "; "))
	}
	// std log bridge: getpc in a Write method of a type handed to log.New
	for _, cp := range caps {
		if cp.direct || nm(cp.fn) != "Write" || cp.fn.Signature.Recv() == nil {
			continue
		}
		key := "std:log->" + shortName(cp.fn)
		e, ok := linOf(cp.call.Common().Args[0])
		if !ok || len(e.atoms) != 0 {
			r.Unk("R14.2", key, p.Pos(instrPos(cp.call)), "skip operand not constant")
			continue
		}
		ds, err := stdDepths(p, "log", "Logger", "Write")
		if err != nil {
			r.Unk("R14.2", key, "-", "%v", err)
			continue
		}
		var names []string
		byDepth := map[int][]string{}
		for name, d := range ds {
			names = append(names, fmt.Sprintf("%s:%d", name, d))
			byDepth[d] = append(byDepth[d], name)
		}
		sort.Strings(names)
		r.Extra["stdlib_log_depths"] = names
		if len(ds) == 0 {
			r.Unk("R14.2", key, p.Pos(instrPos(cp.call)), "no exported log.Logger method reaches Writer.Write in the loaded standard library")
		}
		var depths []int
		for d := range byDepth {
			depths = append(depths, d)
		}
		sort.Ints(depths)
		for _, d := range depths {
			ns := byDepth[d]
			sort.Strings(ns)
			want := int64(d + 1 + 2)
			k2 := fmt.Sprintf("%s[depth=%d]", key, d+1)
			if e.c != want {
				r.Bad("R14.2", k2, p.Pos(instrPos(cp.call)), "%d exported log entry points (%s) reach Writer.Write through %d call(s), which needs getpc(%d) but the bridge uses %d: their records are attributed to a frame inside package log", len(ns), strings.Join(ns, ", "), d+1, want, e.c)
			} else {
				r.Ok("R14.2", k2, p.Pos(instrPos(cp.call)), "%d exported log entry points (%s) reach Writer.Write through %d call(s), matching getpc(%d)", len(ns), strings.Join(ns, ", "), d+1, e.c)
			}
		}
	}
}

// c14Flow: R14.4 and the skip setters.
func c14Flow(c *Ctx, p *Prog, m *Model) {
	r := c.R
	// getpc results flow only into uintptr arguments of spine calls
	getpc := p.Func(p.Slog, "getpc")
	for _, fn := range p.RepoFuncs() {
		for _, cs := range callsTo(fn, getpc) {
			v, ok := cs.(*ssa.Call)
			if !ok {
				continue
			}
			key := "pcflow:" + shortName(fn)
			good := true
			why := ""
			var walk func(val ssa.Value, depth int)
			walk = func(val ssa.Value, depth int) {
				for _, ref := range *val.Referrers() {
					switch x := ref.(type) {
					case *ssa.Phi:
						if depth < 3 {
							walk(x, depth+1)
						}
					case ssa.CallInstruction:
						cal := calleeOf(x)
						if cal == nil && invokeName(x) == "" {
							good, why = false, "passed to an unknown callee"
						}
					case *ssa.DebugRef:
					case *ssa.Store:
						// parked in a field of a local struct (rec.PC = pc) and read back from there
						fa, isFA := x.Addr.(*ssa.FieldAddr)
						var al *ssa.Alloc
						if isFA {
							al, _ = fa.X.(*ssa.Alloc)
						}
						if x.Val != val || al == nil || depth >= 3 {
							good, why = false, fmt.Sprintf("the captured pc is transformed or stored before it reaches the record (%s)", ref)
							continue
						}
						for _, r2 := range *al.Referrers() {
							if fa2, ok := r2.(*ssa.FieldAddr); ok && fa2.Field == fa.Field {
								for _, r3 := range *fa2.Referrers() {
									if ld, ok := r3.(*ssa.UnOp); ok && ld.Op == token.MUL {
										walk(ld, depth+1)
									}
								}
							}
						}
					default:
						good, why = false, fmt.Sprintf("the captured pc is transformed or stored before it reaches the record (%s)", ref)
					}
				}
			}
			walk(v, 0)
			r.Check(good, "R14.4", key, p.Pos(instrPos(cs)), "the captured pc is only passed on", why)
		}
	}
	// spine: uintptr parameter is passed on unchanged
	for _, spec := range []string{"Entry.logContext", "Entry.print", "Entry.WriteThru", "Entry.writeInternal", "Entry.WriteInternal"} {
		fn := p.F(spec)
		if fn == nil {
			continue
		}
		var up *ssa.Parameter
		for _, q := range fn.Params {
			if b, ok := q.Type().Underlying().(*types.Basic); ok && b.Kind() == types.Uintptr {
				up = q
			}
		}
		if up == nil {
			r.Bad("R14.4", "pcparam:"+spec, p.FuncPos(fn), "no uintptr (pc) parameter")
			continue
		}
		passed := false
		for _, ref := range *up.Referrers() {
			if cs, ok := ref.(ssa.CallInstruction); ok {
				for _, a := range cs.Common().Args {
					if a == ssa.Value(up) {
						passed = true
					}
				}
			}
		}
		r.Check(passed, "R14.4", "pcparam:"+spec, p.FuncPos(fn), "the pc parameter is passed on unchanged", "the pc parameter is not passed on unchanged")
	}
	// PrintCtx.set stores its uintptr parameter to stackFrame; source() extracts from that field
	if set := p.Method(p.Slog, "PrintCtx", "set"); set != nil {
		ok := false
		for _, fs := range fieldStores(set) {
			if fs.Field == "stackFrame" {
				if prm, isP := fs.Val.(*ssa.Parameter); isP && prm.Type().String() == "uintptr" {
					ok = true
				}
			}
		}
		r.Check(ok, "R14.4", "PrintCtx.set:stackFrame", p.FuncPos(set), "set stores the call's pc into stackFrame", "PrintCtx.set does not store the call's pc parameter into stackFrame")
	} else {
		r.Unk("R14.4", "PrintCtx.set:stackFrame", "-", "PrintCtx.set not found")
	}
	if src := p.Method(p.Slog, "PrintCtx", "source"); src != nil {
		ok := false
		for _, cs := range callsIn(src) {
			if cal := calleeOf(cs); cal != nil && nm(cal) == "Extract" && len(cs.Common().Args) == 2 {
				if _, isF := isFieldLoadOf(cs.Common().Args[1], "PrintCtx", "stackFrame"); isF {
					ok = true
				}
			}
		}
		r.Check(ok, "R14.4", "PrintCtx.source", p.FuncPos(src), "source() extracts the frame of stackFrame", "PrintCtx.source does not extract the frame of the record's stackFrame")
	}
	if ex := p.Method(p.Slog, "Source", "Extract"); ex != nil {
		// Function/Line come from the frame of the pc parameter
		okF, okL := false, false
		for _, fs := range fieldStores(ex) {
			if fs.Struct != "Source" {
				continue
			}
			if _, _, f, ok := fieldLoad(fs.Val); ok {
				if fs.Field == "Function" && nm(f) == "Function" {
					okF = true
				}
				if fs.Field == "Line" && nm(f) == "Line" {
					okL = true
				}
			}
		}
		usesPC := false
		for _, cs := range callsIn(ex) {
			if cal := calleeOf(cs); cal != nil && cal.String() == "runtime.CallersFrames" {
				usesPC = dependsOnParam(cs.Common().Args[0], ex.Params[1])
			}
		}
		r.Check(okF && okL && usesPC, "R14.4", "Source.Extract", p.FuncPos(ex), "Function and Line are those of the first frame of the given pc", "Source.Extract does not report Function/Line of the first frame of the given pc")
	}
	// every path through printPC reads pc.source() exactly once
	if pp := p.Method(p.Slog, "Entry", "printPC"); pp != nil {
		src := p.Method(p.Slog, "PrintCtx", "source")
		// (counted over the mode-feasible paths with private helpers of printPC expanded, so that a split into
		// per-format helpers is the same thing)
		// source() itself symbolises the record's own pc on every path (no result kept from an earlier record)
		if ex := p.Method(p.Slog, "Source", "Extract"); ex != nil {
			l2, h2 := countOnPaths(src, func(in ssa.Instruction) bool {
				cs, ok := in.(ssa.CallInstruction)
				if !ok || calleeOf(cs) != ex || len(cs.Common().Args) != 2 {
					return false
				}
				_, isF := isFieldLoadOf(cs.Common().Args[1], "PrintCtx", "stackFrame")
				return isF
			})
			r.Check(l2 == 1 && h2 == 1, "R14.4", "PrintCtx.source:every-path", p.FuncPos(src), "extracts the frame of this record's pc on every path", fmt.Sprintf("source() extracts the frame of the record's pc %d..%d times per call: a source kept from an earlier record (or overwritten scratch) can be reported", l2, h2))
		}
		lo, hi := 1<<30, 0
		for _, mode := range feasibleModes {
			seqs, _ := callSeqsMode(p, pp, mode, func(f *ssa.Function) bool { return f == src }, map[*ssa.Function]bool{}, 0)
			for _, sq := range seqs {
				if len(sq) < lo {
					lo = len(sq)
				}
				if len(sq) > hi {
					hi = len(sq)
				}
			}
		}
		r.Check(lo == 1 && hi == 1, "R14.4", "Entry.printPC", p.FuncPos(pp), "every format branch reads the record's source exactly once", fmt.Sprintf("some format branch of printPC reads the source %d..%d times: a format prints no or another caller", lo, hi))
	} else {
		r.Unk("R14.4", "Entry.printPC", "-", "not found")
	}
	// skip setters
	for _, spec := range []string{"Entry.SetSkip", "Entry.withSkip"} {
		fn := p.F(spec)
		if fn == nil {
			if spec == "Entry.withSkip" {
				continue
			}
			r.Unk("R14.3", "setter:"+spec, "-", "not found")
			continue
		}
		ok := false
		for _, fs := range fieldStores(fn) {
			if fs.Field == "extraFrames" && fs.Base == ssa.Value(receiver(fn)) && fs.Val == ssa.Value(fn.Params[1]) {
				ok = true
			}
		}
		r.Check(ok, "R14.3", "setter:"+spec, p.FuncPos(fn), "stores its parameter to the receiver's extraFrames", spec+" does not store its parameter to the receiver's extraFrames")
	}
	if sk := p.Method(p.Slog, "Entry", "Skip"); sk != nil {
		rets, _ := exitBlocks(sk)
		ok := len(rets) == 1
		if ok {
			ret := rets[0].Instrs[len(rets[0].Instrs)-1].(*ssa.Return)
			_, ok = isFieldLoadOf(ret.Results[0], "Entry", "extraFrames")
		}
		r.Check(ok, "R14.3", "getter:Entry.Skip", p.FuncPos(sk), "returns extraFrames", "Entry.Skip does not return the receiver's extraFrames")
	}
	if ws := p.Method(p.Slog, "Entry", "WithSkip"); ws != nil {
		// the child gets the parameter n
		ok := false
		for _, cs := range callsIn(ws) {
			if cal := calleeOf(cs); cal != nil && (nm(cal) == "withSkip" || nm(cal) == "SetSkip") {
				if len(cs.Common().Args) == 2 && cs.Common().Args[1] == ssa.Value(ws.Params[1]) {
					ok = true
				}
			}
		}
		// or stores it into the child's extraFrames itself (the setter folded in)
		for _, fs := range fieldStores(ws) {
			if fs.Struct == "Entry" && fs.Field == "extraFrames" && fs.Val == ssa.Value(ws.Params[1]) && strings.HasPrefix(provenance(fs.Base, ws), "call:Entry.newChildLogger") {
				ok = true
			}
		}
		r.Check(ok, "R14.3", "setter:Entry.WithSkip", p.FuncPos(ws), "WithSkip(n) sets n on the child", "Entry.WithSkip does not pass its parameter to the child's skip setter")
	}
}

func dependsOnParam(v ssa.Value, prm *ssa.Parameter) bool {
	seen := map[ssa.Value]bool{}
	var walk func(v ssa.Value) bool
	walk = func(v ssa.Value) bool {
		if v == nil || seen[v] {
			return false
		}
		seen[v] = true
		if v == ssa.Value(prm) {
			return true
		}
		switch x := v.(type) {
		case *ssa.Slice:
			return walk(x.X)
		case *ssa.Alloc:
			for _, ref := range *x.Referrers() {
				if ia, ok := ref.(*ssa.IndexAddr); ok {
					for _, r2 := range *ia.Referrers() {
						if st, ok := r2.(*ssa.Store); ok && walk(st.Val) {
							return true
						}
					}
				}
				if fa, ok := ref.(*ssa.FieldAddr); ok {
					for _, r2 := range *fa.Referrers() {
						if st, ok := r2.(*ssa.Store); ok && walk(st.Val) {
							return true
						}
					}
				}
				if st, ok := ref.(*ssa.Store); ok && st.Addr == ssa.Value(x) && walk(st.Val) {
					return true
				}
			}
		}
		if in, ok := v.(ssa.Instruction); ok {
			for _, op := range in.Operands(nil) {
				if *op != nil && walk(*op) {
					return true
				}
			}
		}
		return false
	}
	return walk(v)
}

// c14FuncName: R14.6 — the function reported is the function. The post-processing of the runtime's function name
// (and of the file name: the basename/abbreviation helpers are judged by C18) may drop or abbreviate a leading
// package path only: in checkedfuncname and its private helpers every re-slice of a value derived from the name keeps
// the end of the string, and no "before the separator" result of the strings package is derived from it.
func c14FuncName(c *Ctx, p *Prog) {
	r := c.R
	fn := p.Func(p.Slog, "checkedfuncname")
	if fn == nil {
		r.OkTrivial("R14.6", "funcname:none", "-", "no function-name post-processing")
		return
	}
	ph := privateHelper(p)
	region := staticReach([]*ssa.Function{fn}, func(f *ssa.Function) bool { return f != fn && !ph(f) })
	var probs []string
	n := 0
	for g := range region {
		if len(g.Blocks) == 0 {
			continue
		}
		var strParams []*ssa.Parameter
		for _, q := range g.Params {
			if isStringT(q.Type()) {
				strParams = append(strParams, q)
			}
		}
		fromName := func(v ssa.Value) bool {
			for _, q := range strParams {
				if dependsOn(v, q) {
					return true
				}
			}
			return false
		}
		for _, b := range g.Blocks {
			for _, in := range b.Instrs {
				switch x := in.(type) {
				case *ssa.Slice:
					if !isStringT(x.X.Type()) || !fromName(x.X) {
						continue
					}
					n++
					if x.High != nil {
						probs = append(probs, fmt.Sprintf("%s cuts the end off the function name at %s", shortName(g), p.Pos(instrPos(x))))
					}
				case *ssa.Call:
					cal := calleeOf(x)
					if cal == nil || cal.Pkg == nil || cal.Pkg.Pkg.Path() != "strings" || len(x.Common().Args) == 0 || !fromName(x.Common().Args[0]) {
						continue
					}
					switch cal.Name() {
					case "TrimSuffix", "TrimRight", "TrimRightFunc", "Cut", "CutSuffix", "Split", "SplitN", "Fields", "Title", "ToLower", "ToUpper":
						n++
						probs = append(probs, fmt.Sprintf("%s applies strings.%s to the function name at %s", shortName(g), cal.Name(), p.Pos(instrPos(x))))
					}
				}
			}
		}
	}
	// the result is derived from the parameter
	derived := true
	for _, b := range fn.Blocks {
		if ret, ok := b.Instrs[len(b.Instrs)-1].(*ssa.Return); ok && len(ret.Results) == 1 && len(fn.Params) > 0 {
			if !dependsOn(ret.Results[0], fn.Params[0]) && strip(ret.Results[0]) != ssa.Value(fn.Params[0]) {
				derived = false
			}
		}
	}
	if !derived {
		probs = append(probs, "a result of checkedfuncname is not derived from the name given")
	}
	r.Check(len(probs) == 0, "R14.6", "funcname:checkedfuncname", p.FuncPos(fn), fmt.Sprintf("only a leading package path is dropped or abbreviated (%d re-slice/strings sites, all keep the end of the name)", n),
		"the function name reported no longer identifies the issuing function (methods of generic types, closures in generic functions): "+strings.Join(probs, "; "))
}

// c14PrintDecision: R14.5 (second half) — whether the caller is PRINTED depends on the caller flag, the output mode
// and the blank-line shortcut only: every branch edge that dominates the call of the caller printer tests a flag
// constant, a mode bit, or the "blank Print" condition. A test of the record's own attributes (for instance "an
// attribute is already named caller") takes the caller information away from some records.
func c14PrintDecision(c *Ctx, p *Prog, m *Model) {
	r := c.R
	pp := p.Method(p.Slog, "Entry", "printPC")
	if pp == nil {
		r.Unk("R14.5", "print-decision", "-", "printPC not found")
		return
	}
	n := 0
	for _, cs := range p.staticCallers()[pp] {
		fn := cs.Parent()
		n++
		var probs []string
		for _, g := range guardsOf(cs.Block()) {
			bad := ""
			var leaf func(v ssa.Value, depth int)
			leaf = func(v ssa.Value, depth int) {
				v, _ = normCond(v)
				if depth > 5 || bad != "" {
					return
				}
				switch x := v.(type) {
				case *ssa.Const:
				case *ssa.Phi:
					for i, e := range x.Edges {
						if _, isC := e.(*ssa.Const); isC {
							if pi := ifOf(x.Block().Preds[i]); pi != nil {
								leaf(pi.Cond, depth+1)
							}
							continue
						}
						leaf(e, depth+1)
					}
				case *ssa.Call:
					cal := calleeOf(x)
					switch {
					case cal != nil && (nm(cal) == "IsAnyBitsSet" || nm(cal) == "IsAllBitsSet"):
						if _, isC := constInt(x.Common().Args[0]); !isC {
							bad = "a flag test with a computed mask"
						}
					case cal != nil && len(cal.Params) == 0 && cal.Pkg == p.Slog && len(cal.Blocks) == 1:
						// a parameterless predicate over the flags word
					case cal != nil && cal.Pkg == p.Slog && allBytesWhite(cal):
					case cal != nil && cal.Pkg == p.Slog && isBlankRequestPredicate(m, cal):
					case modeConstOf(x, Mode{}, 0) != nil:
						// a mode-classifying helper over the two mode bits
					default:
						bad = "the result of " + x.Common().String()
					}
				case *ssa.BinOp:
					okOp := false
					for _, side := range []ssa.Value{x.X, x.Y} {
						s := strip(side)
						if _, isMode := modeCond(s, Mode{}); isMode {
							okOp = true
						}
						if base, _, f, isF := fieldLoad(s); isF && typeName(base.Type()) == "PrintCtx" && (nm(f) == "lvl" || nm(f) == "noColor" || nm(f) == "jsonMode") {
							okOp = true
						}
						if call, isCall := s.(*ssa.Call); isCall {
							if cal := calleeOf(call); cal != nil && cal.Pkg != nil && cal.Pkg.Pkg.Path() == "strings" {
								okOp = true // strings.Trim(msg, ...) == ""
							}
						}
						if g2, isG := globalLoad(s); isG && nm(g2) == "flags" {
							okOp = true
						}
						if b2, isB := s.(*ssa.BinOp); isB && b2.Op == token.AND {
							okOp = true // flags & L
						}
					}
					if !okOp {
						bad = x.String()
					}
				case *ssa.UnOp:
					if _, isMode := modeCond(x, Mode{}); !isMode {
						bad = x.String()
					}
				default:
					bad = v.String()
				}
			}
			leaf(g.If.Cond, 0)
			if bad != "" {
				probs = append(probs, fmt.Sprintf("%s (%s) at %s", m.guardDesc(g), bad, p.Pos(instrPos(g.If))))
			}
		}
		r.Check(len(probs) == 0, "R14.5", "print-decision:"+shortName(fn), p.Pos(instrPos(cs)), "the caller is printed under the caller flag, the mode and the blank-line shortcut only", "whether the caller is printed also depends on "+strings.Join(probs, "; ")+": records for which that test fails carry no caller information although it is enabled")
	}
	if n == 0 {
		r.Unk("R14.5", "print-decision", "-", "the caller printer is not called")
	}
}

// c14NoInterfaceReentry: an entry point that captures the caller's pc must be entered from user code. No dispatcher of
// the package-level verbs calls a logging entry point through the logger interfaces (an invoke of Info/Warn/LogAttrs/... on an
// interface value): whatever implements it captures the pc at its own depth, so the record would be attributed to
// the package's own function (the dispatcher) instead of the statement in user code.
func c14NoInterfaceReentry(c *Ctx, p *Prog, m *Model) {
	r := c.R
	methods, _ := entryPointNames(p)
	isEntry := map[string]bool{}
	for _, n := range methods {
		isEntry[n] = true
	}
	var bad []string
	n := 0
	for _, fn := range p.RepoFuncs() {
		// the dispatchers of the package-level verbs: package-level functions on the emission spine (a diagnostic the
		// package logs about itself, and the handler's fallback for foreign Logger implementations, are not user records
		// of the package's own loggers)
		if fn.Pkg != p.Slog || fn.Signature.Recv() != nil || !m.Spine[fn] {
			continue
		}
		for _, cs := range callsIn(fn) {
			if !cs.Common().IsInvoke() {
				n++
				continue
			}
			n++
			name := nm(cs.Common().Method)
			if !isEntry[name] {
				continue
			}
			// an interface of the package's logger family (not, say, a testing.TB's Log)
			it := cs.Common().Value.Type()
			if nt := namedOf(it); nt == nil || nt.Obj().Pkg() == nil || nt.Obj().Pkg() != p.Slog.Pkg {
				continue
			}
			bad = append(bad, fmt.Sprintf("%s invokes %s at %s", shortName(fn), name, p.Pos(instrPos(cs))))
		}
	}
	sort.Strings(bad)
	r.Check(len(bad) == 0, "R14.1", "no-interface-reentry", "-", fmt.Sprintf("none of the %d calls in the package-level dispatchers is a logging entry point reached through an interface", n),
		"a logging entry point is called through the logger interface from inside the package ("+strings.Join(bad, "; ")+"): the implementation captures the caller at its own depth, so these records are attributed to the package's own function instead of the statement in user code")
}
