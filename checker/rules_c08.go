package main

import (
	"fmt"
	"go/token"
	"go/types"
	"os"
	"sort"
	"strings"

	"golang.org/x/tools/go/ssa"
)

func init() { register("C08", checkC08) }

func checkC08(c *Ctx) {
	r := c.R
	r.Rule("R02.7", "(shared with C02) delivered = admitted: the sink issues no record of its own when every destination reported success")
	r.Rule("R03.3", "(shared with C03) delivered = admitted: each add / set / remove operation of the writer set edits its own lists only, a destination is entered once")
	r.Rule("R15.4", "(shared with C15) no shared mutable state between handlers: derived log/slog handlers own a fresh field list and deriving one edits no attribute object")
	r.Rule("R03.1", "(shared with C03) no admitted record is lost: the routing decision function equals the documented one (an emptied per-level list does not hide the class writers)")
	r.Rule("R10.1", "(shared with C10) no shared mutable configuration between loggers: a child never shares its parent's writer set or per-level map")
	r.Rule("R13.2", "(shared with C13) no record nobody logged: the sink reports a failed Write at most once, at the severity its own recursion guard tests, through a gated entry point of the same logger")
	r.Rule("R08.7", "lock discipline: every mutex the package acquires is released on every path to a return, and while it is held no call is made that can come back to an acquisition of the same mutex (the sink logs its own failure diagnostic through the same logger); on the pinned default build the package acquires none")
	r.Rule("R08.1", "shared-write rule (race freedom by ownership): every store on the logging path (field store, element store, map update, store through a pointer, package-variable store) targets memory owned by the call: the pooled PrintCtx of this call and what hangs off it, the pooled per-call attribute slice, locals and fresh allocations. A store whose target is a field of a logger or writer set, a package-level variable (other than the atomic size hint), or of unknown provenance is a violation")
	r.Rule("R08.2", "in-place mutators get owned slices only: every slice that reaches the sort/de-duplication (and any other in-place slice mutator on the path) originates, over all call chains, from the per-call pooled slice, a fresh allocation, or an explicit copy (slices.Clone); never from a group's member list, a logger's attribute list, or a caller-supplied slice")
	r.Rule("R08.6", "destination wrappers keep no per-record state: for every type of the package with a Write([]byte) method (the encoder excepted) SetLevel and Write store to no field of the receiver and hand no field address to a sync/atomic writer; the wrapper object is shared by all goroutines writing to that destination")
	r.Rule("R08.3", "pool discipline: the formatting buffer and the attribute slice go back to their pools only after the record was written, are not used afterwards and do not escape into fields or package variables")
	r.Rule("R08.4", "whole record per Write: with per-call buffers, one emission per call and one Write of the whole payload per destination (R02.1-R02.3, shared), a payload is the record of exactly one call and each admitted call produces one")
	r.Assume("destinations (io.Writer implementations) are goroutine-safe; concurrent reconfiguration of a logger is outside the property")
	r.Assume("race freedom is argued from ownership of written memory, not observed on schedules")
	for _, tags := range c.Configs([]string{""}, []string{"", "verbose", "hint"}) {
		p := c.Prog(tags)
		if p == nil {
			continue
		}
		m, err := BuildModel(p)
		if err != nil {
			r.Unk("R08.1", "model", "-", "%v", err)
			continue
		}
		c08Stores(c, p, m)
		c08Pools(c, p, m)
		wrappersStateless(c, p, "R08.6")
		pooledObjectsFresh(c, p, "R08.3")
		c02Counts(c, p, m)
		c02Sink(c, p, m)
		c02Newline(c, p, m)
		c02Pool(c, p, m)
		c09Pooled(c, p, m, "R08.5", feasibleModes)
		c09Globals(c, p, m)
		c13Fanout(c, p, m)
		noDiagnosticOnSuccess(c, p, m)
		c03AddRemove(c, p, m)
		c03Frames(c, p, m)
		lockDiscipline(c, p, "R08.7")
		c13Reaction(c, p, m)
		c15Derived(c, p, m)
		lookupHitIsPure(c, p, "R10.4")
		c03Routing(c, p, m)
		c10Frames(c, p, m)
		c10Creation(c, p, m)
	}
	r.Rule("R08.5", "the record of exactly one call: in each output mode no field of the pooled encoder is read before the current call wrote it (engine E10, shared with R09.1), so nothing another call formatted can appear in this call's payload")
	r.Rule("R02.1", "(shared with C02) at most one emission per call")
	r.Rule("R02.2", "(shared with C02) one Write of the whole payload per destination")
	r.Rule("R02.3", "(shared with C02) the payload is the finished buffer")
	r.Rule("R02.6", "(shared with C02) pooled buffer discipline")
	r.Rule("R13.1", "(shared with C13) every destination of the set receives each record: the fan-out loop has its natural exit only and hands each member the whole payload")
	r.Rule("R09.2", "(shared with C09) the record of exactly one call: nothing rendered or collected for one call is kept in package-level or pooled state for the next (pooled attribute lists go back empty)")
	c.Floor["R08.1"] = 60
	c.Floor["R08.2"] = 2
}

// origin classes of a slice / pointer value, traced interprocedurally over in-package call sites.
type originTracer struct {
	p     *Prog
	m     *Model
	seen  map[string]bool
	depth int
}

func (ot *originTracer) origins(v ssa.Value, fn *ssa.Function, out map[string]bool, depth int) {
	if depth > 60 {
		out["unknown:depth"] = true
		return
	}
	key := fmt.Sprintf("%p/%p", v, fn)
	if ot.seen[key] {
		return
	}
	ot.seen[key] = true
	v = stripNoIface(v)
	switch x := v.(type) {
	case *ssa.Const:
		out["nil"] = true
	case *ssa.Phi:
		for _, e := range x.Edges {
			ot.origins(e, fn, out, depth+1)
		}
	case *ssa.MakeSlice, *ssa.Alloc, *ssa.MakeMap:
		out["fresh"] = true
	case *ssa.Slice:
		ot.origins(x.X, fn, out, depth+1)
	case *ssa.MakeInterface:
		ot.origins(x.X, fn, out, depth+1)
	case *ssa.TypeAssert:
		ot.origins(x.X, fn, out, depth+1)
	case *ssa.Extract:
		ot.origins(x.Tuple, fn, out, depth+1)
	case *ssa.Call:
		if isBuiltinCall(x, "append") {
			// append writes into the first operand's backing array when capacity allows: same owner as the base
			ot.origins(x.Common().Args[0], fn, out, depth+1)
			return
		}
		cal := calleeOf(x)
		if cal == nil {
			out["unknown:dynamic-call"] = true
			return
		}
		name := origin(cal).String()
		switch {
		case strings.HasPrefix(name, "slices.Clone"), strings.HasPrefix(name, "slices.Clip") && false, strings.HasPrefix(name, "bytes.Clone"):
			out["copy"] = true
		case name == "(*sync.Pool).Get":
			if g, ok := x.Common().Args[0].(*ssa.Global); ok {
				out["pool:"+nm(g)] = true
			} else {
				out["unknown:pool"] = true
			}
		case cal.Pkg == ot.p.Slog || (cal.Origin() != nil && cal.Origin().Pkg == ot.p.Slog):
			// result of an in-package function: what it returns
			rets, _ := exitBlocks(cal)
			for _, b := range rets {
				ret := b.Instrs[len(b.Instrs)-1].(*ssa.Return)
				if len(ret.Results) > 0 {
					ot.origins(ret.Results[0], cal, out, depth+1)
				}
			}
		case strings.HasPrefix(name, "strconv.Append"), name == "unicode/utf8.AppendRune", name == "(time.Time).AppendFormat", name == "fmt.Append", name == "fmt.Appendf":
			// append-style library calls extend their first slice operand
			for _, a := range x.Common().Args {
				if isByteSlice(a.Type()) {
					ot.origins(a, fn, out, depth+1)
					return
				}
			}
			out["call:"+name] = true
		case name == "strings.Split", name == "strings.Fields", name == "strings.SplitN", name == "strings.Repeat":
			out["fresh"] = true
		default:
			out["call:"+name] = true
		}
	case *ssa.UnOp:
		if x.Op != token.MUL {
			out["unknown:unop"] = true
			return
		}
		// load: from a field, a local cell, a pointer parameter, a global
		switch a := x.X.(type) {
		case *ssa.FieldAddr:
			st := structOf(a.X.Type())
			tn, f := typeName(a.X.Type()), nm(st.Field(a.Field))
			if tn == "PrintCtx" {
				if f == "kvps" {
					// the value the session stored: what set() assigns last
					ot.pcFieldOrigins(f, out, depth+1)
					return
				}
				// everything else hanging off the per-call context (its byte buffer in particular) is owned by the call
				out["pool:poolPrintCtx"] = true
				return
			}
			out["field:"+tn+"."+f] = true
		case *ssa.Alloc:
			for _, ref := range *a.Referrers() {
				if st, ok := ref.(*ssa.Store); ok && st.Addr == ssa.Value(a) {
					ot.origins(st.Val, fn, out, depth+1)
				}
			}
			// the cell's address may be handed to callees that store through it
			for _, ref := range *a.Referrers() {
				if cs, ok := ref.(ssa.CallInstruction); ok {
					if cal := calleeOf(cs); cal != nil {
						for i, arg := range cs.Common().Args {
							if arg == ssa.Value(a) && i < len(cal.Params) {
								ot.storesThrough(cal.Params[i], cal, out, depth+1)
							}
						}
					}
				}
			}
		case *ssa.Parameter:
			// *p for pointer parameter p: what callers' cells hold
			ot.paramOrigins(a, fn, out, depth+1, true)
		case *ssa.Global:
			out["global:"+nm(a)] = true
		case *ssa.IndexAddr:
			out["elem"] = true
		case *ssa.FreeVar:
			out["freevar:"+nm(a)] = true
		default:
			out["unknown:load"] = true
		}
	case *ssa.Parameter:
		ot.paramOrigins(x, fn, out, depth+1, false)
	case *ssa.FreeVar:
		// captured variable of a closure: resolve in the parent at the MakeClosure
		if par := fn.Parent(); par != nil {
			for _, b := range par.Blocks {
				for _, in := range b.Instrs {
					if mc, ok := in.(*ssa.MakeClosure); ok && mc.Fn == ssa.Value(fn) {
						for i, fv := range fn.FreeVars {
							if fv == x && i < len(mc.Bindings) {
								ot.origins(mc.Bindings[i], par, out, depth+1)
							}
						}
					}
				}
			}
			return
		}
		out["unknown:freevar"] = true
	case *ssa.Lookup:
		out["mapelem"] = true
	default:
		out[fmt.Sprintf("unknown:%T", v)] = true
	}
}

func stripNoIface(v ssa.Value) ssa.Value {
	for {
		switch x := v.(type) {
		case *ssa.ChangeType:
			v = x.X
		case *ssa.Convert:
			v = x.X
		default:
			return v
		}
	}
}

// storesThrough: values a callee stores through its pointer parameter.
func (ot *originTracer) storesThrough(prm *ssa.Parameter, fn *ssa.Function, out map[string]bool, depth int) {
	for _, ref := range *prm.Referrers() {
		if st, ok := ref.(*ssa.Store); ok && st.Addr == ssa.Value(prm) {
			// `*p = append(*p, ...)` extends what p already points to: no new origin
			if call, isC := st.Val.(*ssa.Call); isC && isBuiltinCall(call, "append") {
				if u, isU := call.Common().Args[0].(*ssa.UnOp); isU && u.Op == token.MUL && u.X == ssa.Value(prm) {
					continue
				}
			}
			ot.origins(st.Val, fn, out, depth+1)
		}
		if cs, ok := ref.(ssa.CallInstruction); ok {
			if cal := calleeOf(cs); cal != nil {
				for i, arg := range cs.Common().Args {
					if arg == ssa.Value(prm) && i < len(cal.Params) && depth < 40 {
						ot.storesThrough(cal.Params[i], cal, out, depth+1)
					}
				}
			}
		}
	}
}

func (ot *originTracer) paramOrigins(prm *ssa.Parameter, fn *ssa.Function, out map[string]bool, depth int, deref bool) {
	pk := fmt.Sprintf("param/%p/%v", prm, deref)
	if ot.seen[pk] {
		return
	}
	ot.seen[pk] = true
	if depth > 60 {
		out["unknown:depth"] = true
		return
	}
	idx := -1
	for i, q := range fn.Params {
		if q == prm {
			idx = i
		}
	}
	sites := ot.m.Callers[fn]
	if fn.Origin() != nil {
		sites = append(sites, ot.m.Callers[fn.Origin()]...)
	}
	exported := fn.Parent() == nil && token.IsExported(nm(fn))
	if exported || len(sites) == 0 {
		// methods that implement a package interface are entered through dynamic dispatch from inside the package too
		out["param-of-entry:"+shortName(fn)+"."+nm(prm)] = true
	}
	for _, s := range sites {
		if idx < 0 || idx >= len(s.Common().Args) {
			continue
		}
		arg := s.Common().Args[idx]
		if deref {
			// the pointee: a local cell of the caller, or a field address
			switch a := arg.(type) {
			case *ssa.Alloc:
				for _, ref := range *a.Referrers() {
					if st, ok := ref.(*ssa.Store); ok && st.Addr == ssa.Value(a) {
						ot.origins(st.Val, s.Parent(), out, depth+1)
					}
				}
			case *ssa.FieldAddr:
				st := structOf(a.X.Type())
				out["field:"+typeName(a.X.Type())+"."+nm(st.Field(a.Field))] = true
			case *ssa.Parameter:
				ot.paramOrigins(a, s.Parent(), out, depth+1, true)
			default:
				out["unknown:pointee"] = true
			}
			continue
		}
		ot.origins(arg, s.Parent(), out, depth+1)
	}
}

// pcFieldOrigins: the values stored into PrintCtx.<f>; a store in set() that follows the setentry call supersedes setentry's.
func (ot *originTracer) pcFieldOrigins(f string, out map[string]bool, depth int) {
	set := ot.p.Method(ot.p.Slog, "PrintCtx", "set")
	if set != nil {
		var direct []FieldStore
		for _, fs := range fieldStores(set) {
			if fs.Struct == "PrintCtx" && fs.Field == f && fs.Kind == "store" && len(guardsOf(fs.Instr.Block())) == 0 {
				direct = append(direct, fs)
			}
		}
		if len(direct) > 0 {
			// unconditional store in set(): it is what the session sees, provided it comes after the call of setentry
			ok := true
			for _, cs := range callsIn(set) {
				if cal := calleeOf(cs); cal != nil && nm(cal) == "setentry" {
					for _, d := range direct {
						if !after(cs, d.Instr) {
							ok = false
						}
					}
				}
			}
			if ok {
				for _, d := range direct {
					ot.origins(d.Val, set, out, depth+1)
				}
				return
			}
		}
	}
	n := 0
	for _, fn := range ot.p.RepoFuncs() {
		for _, fs := range fieldStores(fn) {
			if fs.Struct == "PrintCtx" && fs.Field == f && fs.Kind == "store" {
				n++
				ot.origins(fs.Val, fn, out, depth+1)
			}
		}
	}
	if n == 0 {
		out["unknown:pcfield:"+f] = true
	}
}

func ownedOrigin(o string) bool {
	switch {
	case o == "nil", o == "fresh", o == "copy", o == "pool:poolAttrs", o == "pool:poolPrintCtx":
		return true
	}
	return false
}

func c08Stores(c *Ctx, p *Prog, m *Model) {
	r := c.R
	tree := printTree(p, m)
	var fns []*ssa.Function
	for fn := range tree {
		if len(fn.Blocks) > 0 {
			fns = append(fns, fn)
		}
	}
	sort.Slice(fns, func(i, j int) bool { return shortName(fns[i]) < shortName(fns[j]) })
	r.Extra["print_tree_functions"] = len(fns)
	mutators := map[string]int{ // in-place slice mutators: index of the slice operand
		"slices.SortStableFunc": 0, "slices.SortFunc": 0, "slices.Sort": 0, "slices.Reverse": 0, "sort.Slice": 0, "sort.SliceStable": 0,
		"sort.Sort": 0, "sort.Stable": 0, "slices.Compact": 0, "slices.CompactFunc": 0,
	}
	for _, fn := range fns {
		name := shortName(fn)
		var probs []string
		nst := 0
		for _, b := range fn.Blocks {
			for _, in := range b.Instrs {
				switch x := in.(type) {
				case *ssa.Store:
					nst++
					switch a := x.Addr.(type) {
					case *ssa.FieldAddr:
						tn := typeName(a.X.Type())
						switch tn {
						case "PrintCtx", "Source", "kvp":
							if tn == "kvp" {
								if _, isAlloc := a.X.(*ssa.Alloc); !isAlloc {
									probs = append(probs, fmt.Sprintf("stores to a field of a shared attribute (%s) at %s", tn, p.Pos(instrPos(x))))
								}
							}
						default:
							if _, isAlloc := stripNoIface(a.X).(*ssa.Alloc); isAlloc {
								continue
							}
							probs = append(probs, fmt.Sprintf("stores to %s.%s at %s", tn, nm(structOf(a.X.Type()).Field(a.Field)), p.Pos(instrPos(x))))
						}
					case *ssa.Global:
						if !underLock(x) {
							probs = append(probs, fmt.Sprintf("stores to package variable %s at %s", nm(a), p.Pos(instrPos(x))))
						}
					case *ssa.IndexAddr:
						ot := &originTracer{p: p, m: m, seen: map[string]bool{}}
						o := map[string]bool{}
						ot.origins(a.X, fn, o, 0)
						var bad []string
						for k := range o {
							if !ownedOrigin(k) && k != "field:PrintCtx.buf" {
								bad = append(bad, k)
							}
						}
						sort.Strings(bad)
						if len(bad) > 0 {
							probs = append(probs, fmt.Sprintf("writes an element of a slice that may be shared (%s) at %s", strings.Join(bad, ","), p.Pos(instrPos(x))))
						}
					case *ssa.Parameter:
						// store through a pointer parameter: the pointee must be a caller's local
						ot := &originTracer{p: p, m: m, seen: map[string]bool{}}
						if bad := ot.pointeeShared(a, fn); bad != "" {
							probs = append(probs, fmt.Sprintf("stores through pointer parameter %s whose pointee may be shared (%s) at %s", nm(a), bad, p.Pos(instrPos(x))))
						}
					case *ssa.Alloc, *ssa.FreeVar:
					default:
						probs = append(probs, fmt.Sprintf("store through an address of unknown provenance (%T) at %s", a, p.Pos(instrPos(x))))
					}
				case *ssa.MapUpdate:
					nst++
					if !underLock(x) {
						probs = append(probs, fmt.Sprintf("map update at %s", p.Pos(instrPos(x))))
					}
				case ssa.CallInstruction:
					if isBuiltinCall(x, "delete") || isBuiltinCall(x, "clear") {
						probs = append(probs, fmt.Sprintf("delete/clear at %s", p.Pos(instrPos(x))))
					}
					// an atomic write to a field of a logger, writer set or any other object that outlives the call: state that
					// one record leaves behind for the records of other goroutines (a "busy"/"reporting" flag, a counter)
					if cal := calleeOf(x); cal != nil && cal.Pkg != nil && cal.Pkg.Pkg.Path() == "sync/atomic" {
						if n := cal.Name(); strings.HasPrefix(n, "Store") || strings.HasPrefix(n, "Swap") || strings.HasPrefix(n, "Add") || strings.HasPrefix(n, "CompareAndSwap") || strings.HasPrefix(n, "And") || strings.HasPrefix(n, "Or") {
							if len(x.Common().Args) > 0 {
								if fa, isFA := x.Common().Args[0].(*ssa.FieldAddr); isFA {
									if _, isAlloc := stripNoIface(fa.X).(*ssa.Alloc); !isAlloc && typeName(fa.X.Type()) != "PrintCtx" {
										probs = append(probs, fmt.Sprintf("writes %s.%s atomically at %s: a flag or counter kept in an object shared by all goroutines changes what concurrent records do", typeName(fa.X.Type()), nm(structOf(fa.X.Type()).Field(fa.Field)), p.Pos(instrPos(x))))
									}
								}
							}
						}
					}
					// a slice view of a package-level array handed to a callee: the callee (runtime.Callers, copy, Read, an
					// Append-style formatter) fills memory that every goroutine's records share
					if _, isB := x.Common().Value.(*ssa.Builtin); !isB || isBuiltinCall(x, "copy") {
						for ai, arg := range x.Common().Args {
							if isBuiltinCall(x, "copy") && ai != 0 {
								continue
							}
							sl, isSl := stripNoIface(arg).(*ssa.Slice)
							if !isSl {
								continue
							}
							if g, isG := sl.X.(*ssa.Global); isG && !underLock(x) {
								if _, isArr := g.Type().(*types.Pointer).Elem().Underlying().(*types.Array); isArr {
									probs = append(probs, fmt.Sprintf("hands a slice of the package-level array %s to %s at %s: the callee writes into memory shared by all goroutines and all records (a scratch buffer must be local to the call)", nm(g), callName(x), p.Pos(instrPos(x))))
								}
							}
						}
					}
					if mn := invokeName(x); mn != "" && mn != "Key" && mn != "Value" {
						// a mutating method of the attribute interface: the attribute objects of a record are the very
						// objects held by the logger, its ancestors and the caller's slices
						if it, ok := x.Common().Value.Type().Underlying().(*types.Interface); ok && hasMethods(it, "Key", "Value") {
							if _, fresh := stripNoIface(x.Common().Value).(*ssa.Alloc); !fresh {
								if impl := mutatingImpl(p, mn); impl != "" {
									probs = append(probs, fmt.Sprintf("calls %s on an attribute of the record at %s (%s stores to its receiver): the attribute object is the one held by the logger, an ancestor or the caller, so one record rewrites what other records and other loggers print", mn, p.Pos(instrPos(x)), impl))
								}
							}
						}
					}
					if call, isCall := x.(*ssa.Call); isCall && isBuiltinCall(x, "append") {
						// append writes into the spare capacity of its first argument: a list held by a logger, handler or
						// group (directly, or handed in by the caller on the print path) must be copied first
						sharedField := func(v ssa.Value) string {
							for _, sv := range sources(v) {
								if base, _, f, ok := fieldLoad(sv); ok {
									if tn := typeName(base.Type()); tn != "PrintCtx" {
										if _, isAlloc := stripNoIface(base).(*ssa.Alloc); !isAlloc {
											return tn + "." + nm(f)
										}
									}
								}
							}
							return ""
						}
						// the values the first argument can hold: itself, and for a variable captured by a closure or kept
						// in a local cell, what is stored into that cell (in the enclosing function)
						type cand struct {
							v  ssa.Value
							in *ssa.Function
						}
						cands := []cand{{call.Common().Args[0], fn}}
						for _, sv := range sources(call.Common().Args[0]) {
							u, isLoad := sv.(*ssa.UnOp)
							if !isLoad || u.Op != token.MUL {
								continue
							}
							var cell *ssa.Alloc
							owner := fn
							switch x := u.X.(type) {
							case *ssa.Alloc:
								cell = x
							case *ssa.FreeVar:
								if par := fn.Parent(); par != nil {
									for _, pb := range par.Blocks {
										for _, pin := range pb.Instrs {
											if mc, ok := pin.(*ssa.MakeClosure); ok && mc.Fn == ssa.Value(fn) {
												for i, fv := range fn.FreeVars {
													if fv == x && i < len(mc.Bindings) {
														cell, _ = mc.Bindings[i].(*ssa.Alloc)
														owner = par
													}
												}
											}
										}
									}
								}
							}
							if cell == nil {
								continue
							}
							for _, ref := range *cell.Referrers() {
								if sv2, ok := ref.(*ssa.Store); ok && sv2.Addr == ssa.Value(cell) {
									cands = append(cands, cand{sv2.Val, owner})
								}
							}
						}
						bad := ""
						if os.Getenv("LOGGCHECK_DEBUG") != "" {
							fmt.Fprintf(os.Stderr, "APPEND in %s: cands=%d\n", shortName(fn), len(cands))
							for _, cd := range cands {
								fmt.Fprintf(os.Stderr, "   cand %v in %s callers=%d\n", cd.v, shortName(cd.in), len(p.staticCallers()[cd.in]))
							}
						}
						for _, cd := range cands {
							if sf := sharedField(cd.v); sf != "" {
								bad = sf
							}
							for _, sv := range sources(cd.v) {
								prm, isPrm := sv.(*ssa.Parameter)
								if !isPrm {
									continue
								}
								idx := -1
								for i, q := range cd.in.Params {
									if q == prm {
										idx = i
									}
								}
								for _, site := range p.staticCallers()[cd.in] {
									if idx >= 0 && idx < len(site.Common().Args) && tree[site.Parent()] {
										if sf := sharedField(site.Common().Args[idx]); sf != "" {
											bad = sf + " (handed in by " + shortName(site.Parent()) + ")"
										}
									}
								}
							}
						}
						if bad != "" {
							probs = append(probs, fmt.Sprintf("appends into the spare capacity of the shared list %s at %s", bad, p.Pos(instrPos(x))))
						}
					}
					if isBuiltinCall(x, "copy") {
						ot := &originTracer{p: p, m: m, seen: map[string]bool{}}
						o := map[string]bool{}
						ot.origins(x.Common().Args[0], fn, o, 0)
						for k := range o {
							if !ownedOrigin(k) && k != "field:PrintCtx.buf" {
								probs = append(probs, fmt.Sprintf("copy() into a slice that may be shared (%s) at %s", k, p.Pos(instrPos(x))))
							}
						}
					}
					if cal := calleeOf(x); cal != nil {
						base := origin(cal).String()
						if i := strings.Index(base, "["); i > 0 {
							base = base[:i]
						}
						base = strings.TrimPrefix(base, "github.com/hedzr/logg/slog.")
						idx, isMut := mutators[base]
						if base == "dedupeSlice" {
							idx, isMut = 0, true
						}
						if isMut {
							ot := &originTracer{p: p, m: m, seen: map[string]bool{}}
							o := map[string]bool{}
							ot.origins(x.Common().Args[idx], fn, o, 0)
							var all, bad []string
							for k := range o {
								all = append(all, k)
								if !ownedOrigin(k) {
									bad = append(bad, k)
								}
							}
							sort.Strings(all)
							sort.Strings(bad)
							key := "mutator:" + name + "->" + base
							if len(bad) > 0 {
								r.Bad("R08.2", key, p.Pos(instrPos(x)), "%s reorders/overwrites its argument in place, and that slice can be %s: goroutines printing the same group / logger / caller slice write the same backing array concurrently (data race), and the owner's list is reordered behind its back", base, strings.Join(bad, ", "))
							} else {
								r.Ok("R08.2", key, p.Pos(instrPos(x)), "the slice mutated in place only ever comes from %s", strings.Join(all, ", "))
							}
						}
					}
				}
			}
		}
		r.Check(len(probs) == 0, "R08.1", "fn:"+name, p.FuncPos(fn), fmt.Sprintf("%d store(s), all to call-owned memory", nst), strings.Join(probs, "; "))
	}
}

// pointeeShared: for a pointer parameter, find what it points to at every call site (transitively).
func (ot *originTracer) pointeeShared(prm *ssa.Parameter, fn *ssa.Function) string {
	idx := -1
	for i, q := range fn.Params {
		if q == prm {
			idx = i
		}
	}
	sites := ot.m.Callers[fn]
	if fn.Parent() == nil && token.IsExported(nm(fn)) || len(sites) == 0 {
		if typeName(prm.Type()) == "PrintCtx" || fn.Signature.Recv() != nil && prm == fn.Params[0] {
			return ""
		}
		return "caller of " + shortName(fn)
	}
	for _, s := range sites {
		if idx >= len(s.Common().Args) {
			continue
		}
		switch a := s.Common().Args[idx].(type) {
		case *ssa.Alloc:
		case *ssa.FieldAddr:
			tn := typeName(a.X.Type())
			if tn == "PrintCtx" || tn == "Source" {
				continue
			}
			if _, isAlloc := a.X.(*ssa.Alloc); isAlloc {
				continue
			}
			// &s.attrs in Set/newentry: configuration, not on the print path
			if !ot.m.Spine[s.Parent()] && !printTreeHas(ot, s.Parent()) {
				continue
			}
			return "field " + tn + "." + nm(structOf(a.X.Type()).Field(a.Field))
		case *ssa.Parameter:
			if key := fmt.Sprintf("pp/%p", a); !ot.seen[key] {
				ot.seen[key] = true
				if bad := ot.pointeeShared(a, s.Parent()); bad != "" {
					return bad
				}
			}
		case *ssa.Global:
			return "package variable " + nm(a)
		default:
			return fmt.Sprintf("%T", a)
		}
	}
	return ""
}

var printTreeCache map[*ssa.Function]bool

func printTreeHas(ot *originTracer, fn *ssa.Function) bool {
	if printTreeCache == nil {
		printTreeCache = printTree(ot.p, ot.m)
	}
	return printTreeCache[fn]
}

func c08Pools(c *Ctx, p *Prog, m *Model) {
	r := c.R
	printTreeCache = nil
	c02Pool(c, p, m)
	// attribute slice: Put after the emission, emptied, no use afterwards; the pooled objects do not escape
	pa := p.Global(p.Slog, "poolAttrs")
	n := 0
	// acquire / release wrappers: an unexported function, only ever called directly, whose only use of the pool is a
	// Get whose result it returns, or a Put of (a re-slice of) its parameter; their call sites count as Get / Put
	directOps := func(fn *ssa.Function) (get, put ssa.CallInstruction) {
		for _, cs := range callsIn(fn) {
			if cal := calleeOf(cs); cal != nil && len(cs.Common().Args) > 0 && cs.Common().Args[0] == ssa.Value(pa) {
				switch cal.String() {
				case "(*sync.Pool).Get":
					get = cs
				case "(*sync.Pool).Put":
					put = cs
				}
			}
		}
		return
	}
	acquire, release := map[*ssa.Function]bool{}, map[*ssa.Function]bool{}
	for _, fn := range p.RepoFuncs() {
		if p.startupOnly(fn) || fn.Object() == nil || fn.Object().Exported() || p.usedAsValue()[fn] || len(p.staticCallers()[fn]) == 0 {
			continue
		}
		get, put := directOps(fn)
		switch {
		case get != nil && put == nil:
			for _, b := range fn.Blocks {
				if ret, ok := b.Instrs[len(b.Instrs)-1].(*ssa.Return); ok && len(ret.Results) == 1 && get.Value() != nil && dependsOn(ret.Results[0], get.Value()) {
					acquire[fn] = true
				}
			}
		case put != nil && get == nil:
			for _, q := range fn.Params {
				if len(put.Common().Args) > 1 && dependsOn(put.Common().Args[1], q) {
					release[fn] = true
				}
			}
		}
	}
	for _, fn := range p.RepoFuncs() {
		if p.startupOnly(fn) {
			continue
		}
		if acquire[fn] || release[fn] {
			r.Ok("R08.3", "poolAttrs:wrapper:"+shortName(fn), p.FuncPos(fn), "acquire/release wrapper of the attribute-slice pool: judged at its call sites")
			continue
		}
		get, put := directOps(fn)
		for _, cs := range callsIn(fn) {
			if cal := calleeOf(cs); cal != nil {
				if acquire[cal] {
					get = cs
				}
				if release[cal] {
					put = cs
				}
			}
		}
		if get == nil && put == nil {
			continue
		}
		n++
		key := "poolAttrs:" + shortName(fn)
		if get == nil || put == nil {
			r.Bad("R08.3", key, p.FuncPos(fn), "Get and Put of the attribute slice are not paired in one function")
			continue
		}
		var probs []string
		// one Put per Get on every path: a slice put back twice sits in the pool twice, and two later records that
		// overlap in time then collect their attributes into the same backing array
		isPoolPut := func(in ssa.Instruction) bool {
			cs, ok := in.(ssa.CallInstruction)
			if !ok {
				return false
			}
			if cal := calleeOf(cs); cal != nil {
				if release[cal] {
					return true
				}
				if cal.String() == "(*sync.Pool).Put" && len(cs.Common().Args) > 0 && cs.Common().Args[0] == ssa.Value(pa) {
					return true
				}
			}
			return false
		}
		if _, hi := countOnPaths(fn, isPoolPut); hi > 1 || hi == -1 {
			probs = append(probs, "on some path the attribute slice is put back into the pool more than once")
		}
		for _, s := range m.Sites[fn] {
			if after(put, s) {
				probs = append(probs, "the record is emitted after the attribute slice went back to the pool")
			}
		}
		if !after(get, put) {
			probs = append(probs, "Put does not follow Get")
		}
		// what goes back is what was taken (grown, emptied): never a list that belongs to the caller
		if get.Value() != nil {
			var putVals []ssa.Value
			if cal := calleeOf(put); cal != nil && release[cal] {
				putVals = put.Common().Args
			} else if len(put.Common().Args) > 1 {
				putVals = put.Common().Args[1:2]
			}
			fromGet := false
			for _, pv := range putVals {
				if dependsOn(pv, get.Value()) {
					fromGet = true
				}
				// through a local variable whose address is taken (collected into by a helper)
				for v := strip(pv); ; {
					if sl, isSl := v.(*ssa.Slice); isSl {
						v = strip(sl.X)
						continue
					}
					if ld, isLd := v.(*ssa.UnOp); isLd && ld.Op == token.MUL {
						if al, isAl := ld.X.(*ssa.Alloc); isAl {
							for _, ref := range *al.Referrers() {
								if st, isSt := ref.(*ssa.Store); isSt && st.Addr == ssa.Value(al) && dependsOn(st.Val, get.Value()) {
									fromGet = true
								}
							}
						}
					}
					break
				}
			}
			if !fromGet && len(putVals) > 0 {
				probs = append(probs, "the slice put back into the pool is not the one taken from it ("+m.valDesc(strip(putVals[len(putVals)-1]))+"): a list that belongs to the caller becomes the scratch list of later records, which overwrite it")
			}
		}
		// emission lies between
		emitted := false
		for _, s := range m.Sites[fn] {
			if after(get, s) && after(s, put) {
				emitted = true
			}
		}
		if !emitted {
			probs = append(probs, "no emission between Get and Put")
		}
		r.Check(len(probs) == 0, "R08.3", key, p.Pos(instrPos(put)), "Get, collect, emit, empty, Put", strings.Join(probs, "; "))
	}
	if n == 0 {
		r.Unk("R08.3", "poolAttrs:none", "-", "the attribute-slice pool is not used")
	}
	// escape: no *PrintCtx stored into a field / global / map
	for _, fn := range p.RepoFuncs() {
		for _, b := range fn.Blocks {
			for _, in := range b.Instrs {
				st, ok := in.(*ssa.Store)
				if !ok {
					continue
				}
				if typeName(st.Val.Type()) != "PrintCtx" {
					if mi, isMI := st.Val.(*ssa.MakeInterface); !isMI || typeName(mi.X.Type()) != "PrintCtx" {
						continue
					}
				}
				switch a := st.Addr.(type) {
				case *ssa.Alloc:
					continue
				case *ssa.IndexAddr:
					if _, isAlloc := a.X.(*ssa.Alloc); isAlloc {
						continue
					}
				}
				r.Bad("R08.3", "escape:"+shortName(fn), p.Pos(instrPos(st)), "the pooled formatting context is stored somewhere that outlives the call: another goroutine may format into it")
			}
		}
	}
	// ... and is not handed to an object the logger holds for all its records (a shared value stringer, a hook): the
	// object would write into it while another record of the same logger hands in its own
	for _, fn := range p.RepoFuncs() {
		for _, cs := range callsIn(fn) {
			if !cs.Common().IsInvoke() {
				continue
			}
			shared := false
			for _, sv := range sources(cs.Common().Value) {
				if base, _, f, ok := fieldLoad(sv); ok {
					tn := typeName(base.Type())
					if tn == "Entry" || (tn == "PrintCtx" && nm(f) == "valueStringer") {
						shared = true
					}
				}
			}
			if !shared {
				continue
			}
			for _, a := range cs.Common().Args {
				v := a
				if mi, ok := v.(*ssa.MakeInterface); ok {
					v = mi.X
				}
				if typeName(v.Type()) == "PrintCtx" {
					r.Bad("R08.3", "escape:"+shortName(fn)+":"+invokeName(cs), p.Pos(instrPos(cs)), "the pooled formatting context of this record is handed to %s of an object the logger keeps for all its records: two records of that logger formatted at the same time write their values into each other's buffer", invokeName(cs))
				}
			}
		}
	}
	r.Ok("R08.3", "escape:scan", "-", "no store of a *PrintCtx into a field, package variable or non-local slice (%d functions scanned)", len(p.RepoFuncs()))
}

// underLock: the instruction is dominated by an exclusive Lock() of a package-level mutex in the same function and every
// Unlock() of it is deferred or comes after the instruction.
func underLock(in ssa.Instruction) bool {
	fn := in.Parent()
	var locks, unlocks []ssa.CallInstruction
	for _, cs := range callsIn(fn) {
		cal := calleeOf(cs)
		if cal == nil {
			continue
		}
		switch cal.String() {
		case "(*sync.Mutex).Lock", "(*sync.RWMutex).Lock":
			locks = append(locks, cs)
		case "(*sync.Mutex).Unlock", "(*sync.RWMutex).Unlock":
			if _, isDefer := cs.(*ssa.Defer); !isDefer {
				unlocks = append(unlocks, cs)
			}
		}
	}
	for _, l := range locks {
		if _, isG := l.Common().Args[0].(*ssa.Global); !isG {
			continue
		}
		dom := (l.Block() == in.Block() && after(l, in) && !inLoop(l.Block())) || (l.Block() != in.Block() && l.Block().Dominates(in.Block()))
		if !dom {
			continue
		}
		ok := true
		for _, u := range unlocks {
			if u.Common().Args[0] != l.Common().Args[0] {
				continue
			}
			// an unlock that can run between the lock and the store
			if after(l, u) && after(u, in) {
				ok = false
			}
		}
		if ok {
			return true
		}
	}
	return false
}

func hasMethods(it *types.Interface, names ...string) bool {
	for _, n := range names {
		found := false
		for i := 0; i < it.NumMethods(); i++ {
			if it.Method(i).Name() == n {
				found = true
			}
		}
		if !found {
			return false
		}
	}
	return true
}

// mutatingImpl: the name of a method called mn, declared in the logging package, that stores to a field of its receiver.
func mutatingImpl(p *Prog, mn string) string {
	for _, fn := range p.RepoFuncs() {
		if fn.Pkg != p.Slog || fn.Signature.Recv() == nil || fn.Name() != mn || fn.Synthetic != "" {
			continue
		}
		rc := receiver(fn)
		for _, fs := range fieldStores(fn) {
			if rc != nil && strip(fs.Base) == ssa.Value(rc) {
				return shortName(fn)
			}
		}
	}
	return ""
}
