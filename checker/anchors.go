package main

import (
	"encoding/json"
	"fmt"
	"go/types"
	"os"
	"path/filepath"
	"sort"
	"strings"

	"golang.org/x/tools/go/ssa"
)

// Anchor layer. The rules name the library's functions, methods, fields, globals and types by the
// names they have on the tree the rules were confirmed on (the "canonical" names). Exported names are
// API and stay; unexported ones can be renamed by any refactoring without a change of behaviour. So
// that a rename is not mistaken for a missing anchor, /verif/anchors.json records every declared
// object of the repo packages (kind, owner, name, type, and who refers to it), and on every load the
// objects of the tree that have NO counterpart in the record are matched against the recorded objects
// that have disappeared: same kind, same owner, same type, best overlap of referrers (one-to-one,
// unique best match only). A match makes the new object answer to the canonical name everywhere in
// the checker (lookups, name comparisons, obligation keys). No match means the anchor is missing and
// the rule that needs it reports that (undecided -> the check fails): the alias table can only add
// names, never hide an object.

type AnchorObj struct {
	Kind  string   `json:"kind"` // func method field global type const
	Pkg   string   `json:"pkg"`  // slog times strings
	Owner string   `json:"owner,omitempty"`
	Name  string   `json:"name"`
	Type  string   `json:"type"`
	Refs  []string `json:"refs,omitempty"`
}

func (a *AnchorObj) key() string { return a.Kind + "|" + a.Pkg + "|" + a.Owner + "|" + a.Name }

type anchorFile struct {
	Commit  string       `json:"commit"`
	Objects []*AnchorObj `json:"objects"`
}

// aliasOf maps an object of a loaded tree to its canonical name (only for renamed objects).
var aliasOf = map[types.Object]string{}

// aliasNotes collects the renames recognised (for the evidence files).
var aliasNotes = map[string]bool{}

func pkgShort(p *types.Package) string {
	if p == nil {
		return ""
	}
	switch p.Path() {
	case slogPath:
		return "slog"
	case timesPath:
		return "times"
	case strsPath:
		return "strings"
	}
	return ""
}

func typeStr(t types.Type) string {
	q := func(p *types.Package) string { return p.Name() }
	if sig, ok := t.(*types.Signature); ok {
		var ps, rs []string
		for i := 0; i < sig.Params().Len(); i++ {
			s := types.TypeString(sig.Params().At(i).Type(), q)
			if sig.Variadic() && i == sig.Params().Len()-1 {
				s = "..." + strings.TrimPrefix(s, "[]")
			}
			ps = append(ps, s)
		}
		for i := 0; i < sig.Results().Len(); i++ {
			rs = append(rs, types.TypeString(sig.Results().At(i).Type(), q))
		}
		tp := ""
		if sig.TypeParams() != nil {
			tp = fmt.Sprintf("[%d]", sig.TypeParams().Len())
		}
		return "func" + tp + "(" + strings.Join(ps, ",") + ")(" + strings.Join(rs, ",") + ")"
	}
	return types.TypeString(t, q)
}

// collectAnchors lists the declared objects of the repo packages of p with their referrers.
func collectAnchors(p *Prog) (objs []*AnchorObj, byObj map[types.Object]*AnchorObj) {
	byObj = map[types.Object]*AnchorObj{}
	add := func(o types.Object, kind, owner string, t string) *AnchorObj {
		a := &AnchorObj{Kind: kind, Pkg: pkgShort(o.Pkg()), Owner: owner, Name: o.Name(), Type: t}
		objs = append(objs, a)
		byObj[o] = a
		return a
	}
	for _, sp := range []*ssa.Package{p.Slog, p.Times, p.Strs} {
		sc := sp.Pkg.Scope()
		for _, n := range sc.Names() {
			switch o := sc.Lookup(n).(type) {
			case *types.Func:
				add(o, "func", "", typeStr(o.Type()))
			case *types.Var:
				add(o, "global", "", typeStr(o.Type()))
			case *types.Const:
				add(o, "const", "", typeStr(o.Type())+"="+o.Val().ExactString())
			case *types.TypeName:
				if o.IsAlias() {
					continue
				}
				named, ok := o.Type().(*types.Named)
				if !ok {
					continue
				}
				ta := add(o, "type", "", "")
				var members []string
				for i := 0; i < named.NumMethods(); i++ {
					m := named.Method(i)
					add(m, "method", o.Name(), typeStr(m.Type()))
					members = append(members, m.Name())
				}
				if st, ok := named.Underlying().(*types.Struct); ok {
					for i := 0; i < st.NumFields(); i++ {
						f := st.Field(i)
						add(f, "field", o.Name(), typeStr(f.Type()))
						members = append(members, f.Name())
					}
					ta.Type = "struct"
				} else {
					ta.Type = typeStr(named.Underlying())
				}
				sort.Strings(members)
				ta.Refs = members
			}
		}
	}
	// referrers
	refs := map[*AnchorObj]map[string]bool{}
	note := func(o types.Object, from string) {
		if a := byObj[o]; a != nil && o != nil {
			if refs[a] == nil {
				refs[a] = map[string]bool{}
			}
			refs[a][from] = true
		}
	}
	for _, fn := range p.RepoFuncs() {
		top := fn
		for top.Parent() != nil {
			top = top.Parent()
		}
		top = origin(top)
		from := top.Name()
		if r := top.Signature.Recv(); r != nil {
			from = typeNameRaw(r.Type()) + "." + from
		}
		var ops []*ssa.Value
		for _, b := range fn.Blocks {
			for _, in := range b.Instrs {
				switch x := in.(type) {
				case *ssa.FieldAddr:
					if st := structOf(x.X.Type()); st != nil {
						note(st.Field(x.Field), from)
					}
				case *ssa.Field:
					if st := structOf(x.X.Type()); st != nil {
						note(st.Field(x.Field), from)
					}
				}
				ops = in.Operands(ops[:0])
				for _, op := range ops {
					switch v := (*op).(type) {
					case *ssa.Function:
						if o := origin(v).Object(); o != nil && origin(v) != top {
							note(o, from)
						}
					case *ssa.Global:
						note(v.Object(), from)
					}
				}
			}
		}
	}
	for a, m := range refs {
		for r := range m {
			a.Refs = append(a.Refs, r)
		}
		sort.Strings(a.Refs)
	}
	sort.Slice(objs, func(i, j int) bool { return objs[i].key() < objs[j].key() })
	return
}

func typeNameRaw(t types.Type) string {
	if n := namedOf(t); n != nil {
		return n.Obj().Name()
	}
	return t.String()
}

func anchorsPath() string { return filepath.Join(verifDir, "anchors.json") }

// writeAnchorSnapshot records the objects of the default configuration (plus those only present
// under the other analysed build tags) as the canonical reference.
func writeAnchorSnapshot(commit string) error {
	seen := map[string]*AnchorObj{}
	for _, tags := range []string{"", "verbose", "hint"} {
		p, err := Load(tags, nil)
		if err != nil {
			return err
		}
		objs, _ := collectAnchors(p)
		for _, o := range objs {
			if old := seen[o.key()]; old != nil {
				m := map[string]bool{}
				for _, r := range append(old.Refs, o.Refs...) {
					m[r] = true
				}
				old.Refs = sortedKeys(m)
				continue
			}
			seen[o.key()] = o
		}
	}
	af := anchorFile{Commit: commit}
	for _, k := range sortedKeys(seen) {
		af.Objects = append(af.Objects, seen[k])
	}
	data, err := json.MarshalIndent(af, "", " ")
	if err != nil {
		return err
	}
	return os.WriteFile(anchorsPath(), append(data, '\n'), 0o644)
}

var anchorRef map[string]*AnchorObj
var anchorRefLoaded bool

func loadAnchorRef() map[string]*AnchorObj {
	if anchorRefLoaded {
		return anchorRef
	}
	anchorRefLoaded = true
	data, err := os.ReadFile(anchorsPath())
	if err != nil {
		return nil
	}
	var af anchorFile
	if json.Unmarshal(data, &af) != nil {
		return nil
	}
	anchorRef = map[string]*AnchorObj{}
	for _, o := range af.Objects {
		anchorRef[o.key()] = o
	}
	return anchorRef
}

func jaccard(a, b []string) float64 {
	if len(a) == 0 && len(b) == 0 {
		return 0
	}
	m := map[string]bool{}
	for _, x := range a {
		m[x] = true
	}
	n := 0
	for _, x := range b {
		if m[x] {
			n++
		}
	}
	return float64(n) / float64(len(a)+len(b)-n)
}

// resolveAliases matches renamed objects of p against the reference and fills aliasOf / p.canon.
func resolveAliases(p *Prog) {
	ref := loadAnchorRef()
	p.canon = map[string]types.Object{}
	if ref == nil {
		return
	}
	objs, byObj := collectAnchors(p)
	objOf := map[*AnchorObj]types.Object{}
	for o, a := range byObj {
		objOf[a] = o
	}
	cur := map[string]*AnchorObj{}
	for _, a := range objs {
		cur[a.key()] = a
	}
	canonName := map[string]string{} // "Owner.name" or "name" of the tree -> canonical
	mapRefs := func(a *AnchorObj) []string {
		out := make([]string, len(a.Refs))
		for i, r := range a.Refs {
			if c, ok := canonName[r]; ok {
				out[i] = c
			} else {
				out[i] = r
			}
		}
		return out
	}
	matched := map[*AnchorObj]bool{}
	for round := 0; round < 3; round++ {
		type cand struct {
			ref, cur *AnchorObj
			score    float64
		}
		var cands []cand
		perRef := map[*AnchorObj]int{}
		for _, k := range sortedKeys(ref) {
			r := ref[k]
			if cur[k] != nil {
				continue
			}
			done := false
			for m := range matched {
				if aliasOf[objOf[m]] == r.Name && m.Kind == r.Kind && m.Pkg == r.Pkg && ownerCanon(m.Owner, canonName) == r.Owner {
					done = true
				}
			}
			if done {
				continue
			}
			for _, c := range objs {
				if matched[c] || ref[c.key()] != nil || c.Kind != r.Kind || c.Pkg != r.Pkg || ownerCanon(c.Owner, canonName) != r.Owner {
					continue
				}
				if c.Kind == "const" {
					// a renamed constant keeps type and value
					if c.Type != r.Type {
						continue
					}
				} else if c.Kind == "type" {
					if c.Type != r.Type {
						continue
					}
				} else if c.Type != r.Type {
					// a variable or field whose representation changed (a map became an array, ...): only with a strong
					// overlap of the functions that use it
					// ... or an unexported function or method whose parameter list changed (unused parameters dropped, a
					// flag handed down): same owner, used by the same functions
					isFn := (c.Kind == "func" || c.Kind == "method") && len(c.Name) > 0 && c.Name[0] >= 'a' && c.Name[0] <= 'z' && len(r.Refs) > 0
					if (c.Kind == "global" || c.Kind == "field" || isFn) && jaccard(r.Refs, mapRefs(c)) >= 0.6 {
						cands = append(cands, cand{r, c, jaccard(r.Refs, mapRefs(c)) - 0.05})
						perRef[r]++
					}
					continue
				}
				cands = append(cands, cand{r, c, jaccard(r.Refs, mapRefs(c))})
				perRef[r]++
			}
		}
		sort.SliceStable(cands, func(i, j int) bool { return cands[i].score > cands[j].score })
		progress := false
		usedRef := map[*AnchorObj]bool{}
		for i, c := range cands {
			if usedRef[c.ref] || matched[c.cur] {
				continue
			}
			// unique best: no other candidate pair involving either side with the same score
			tie := false
			for j, d := range cands {
				if j != i && d.score == c.score && (d.ref == c.ref || d.cur == c.cur) && !usedRef[d.ref] && !matched[d.cur] {
					tie = true
				}
			}
			if tie || (c.score == 0 && perRef[c.ref] > 1) {
				continue
			}
			usedRef[c.ref] = true
			matched[c.cur] = true
			o := objOf[c.cur]
			aliasOf[o] = c.ref.Name
			p.canon[c.ref.key()] = o
			old := c.cur.Name
			if c.cur.Owner != "" {
				old = c.cur.Owner + "." + old
			}
			nw := c.ref.Name
			if c.ref.Owner != "" {
				nw = c.ref.Owner + "." + nw
			}
			canonName[old] = nw
			if c.cur.Kind == "type" {
				canonName["type:"+c.cur.Name] = c.ref.Name
			}
			aliasNotes[fmt.Sprintf("%s %s.%s is the tree's %s", c.ref.Kind, c.ref.Pkg, nw, old)] = true
			progress = true
		}
		if !progress {
			break
		}
	}
}

func ownerCanon(owner string, canonName map[string]string) string {
	if c, ok := canonName["type:"+owner]; ok {
		return c
	}
	return owner
}

// nm is the canonical name of a declared object (function, global, field, type name, ...).
func nm(x interface{ Name() string }) (name string) {
	if x == nil {
		return "<nil>"
	}
	defer func() {
		if recover() != nil {
			name = "<nil>"
		}
	}()
	var o types.Object
	switch v := x.(type) {
	case *ssa.Function:
		if v == nil {
			return ""
		}
		o = origin(v).Object()
	case *ssa.Global:
		o = v.Object()
	case types.Object:
		o = v
	}
	if o != nil {
		if a, ok := aliasOf[o]; ok {
			return a
		}
	}
	return x.Name()
}

// resolveRoles names functions by the role they play when the canonical function has disappeared without a
// counterpart of the same signature (its body was folded into another function, or its signature changed).
// A role is defined structurally from anchors that cannot move; so far:
//
//	Entry.findWriter - the function whose result the sink (printOut) hands the record to (receiver of Write).
func resolveRoles(p *Prog) {
	key := "method|slog|Entry|findWriter"
	if p.Method(p.Slog, "Entry", "findWriter") == nil {
		if sink := p.Method(p.Slog, "Entry", "printOut"); sink != nil {
			for _, cs := range callsIn(sink) {
				if invokeName(cs) != "Write" {
					continue
				}
				for _, sv := range sources(cs.Common().Value) {
					if call, ok := sv.(*ssa.Call); ok {
						if cal := calleeOf(call); cal != nil && cal.Pkg == p.Slog && origin(cal).Object() != nil {
							o := origin(cal).Object()
							aliasOf[o] = "findWriter"
							p.canon[key] = o
							aliasNotes[fmt.Sprintf("role Entry.findWriter (destination selector of the sink) is played by %s", cal.Name())] = true
						}
					}
				}
			}
		}
	}
}
