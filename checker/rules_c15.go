package main

import (
	"fmt"
	"go/constant"
	"go/token"
	"go/types"
	"sort"
	"strings"

	"golang.org/x/tools/go/ssa"
)

func init() { register("C15", checkC15) }

func checkC15(c *Ctx) {
	r := c.R
	r.Rule("R05.10", "(shared with C05) the same message: the message is handed on as given from the adapter / the bridge to the encoder's message field and written under the message key as it is (no markup translation in JSON / logfmt)")
	r.Rule("R05.5", "(shared with C05) groups nested: member keys are DotPrefix(key, enclosing prefix) and the prefix pushed for a value is the dotted key")
	r.Rule("R05.1", "(shared with C05) groupness is decided per element")
	r.Rule("R02.1", "(shared with C02) emitted once: one emission per call")
	r.Rule("R02.2", "(shared with C02) emitted once: the sink hands the payload to exactly one Write (no retry of the whole fan-out)")
	r.Rule("R03.1", "(shared with C03) emitted once, to the logger's destination: the routing decision function equals the documented one")
	r.Rule("R09.1", "(shared with C09) the record's own time, message and attributes: no field of the pooled encoder is read before the current record wrote it (a zero time does not keep the previous record's)")
	r.Rule("R02.3", "(shared with C02) each message is one record at the bridge's severity: the only payload that is not the finished buffer is the blank line of Print/Println, taken exactly for lvl == AlwaysLevel")
	r.Rule("R16.3", "(shared with C16) the record's own time: every format branch of the timestamp printer passes the instant stored for the record, which WriteThru takes from the log/slog record")
	r.Rule("R15.1", "level tables: mLogSlogLevelToLevel maps exactly the four standard log/slog levels to their namesakes; logsloglevel2Level agrees with it on those four; no foreign level becomes Panic/Fatal except the explicit constants (R12.5, shared)")
	r.Rule("R15.2", "handler gate: handler4LogSlog.Enabled answers, for a mapped level, with the underlying logger's EnabledContext for the mapped severity and the caller's context; Handle maps the record's level through the same table, so Enabled and Handle agree on the severity")
	r.Rule("R15.3", "content pass-through: Handle hands on the record's own time, message and all attributes (converted, the derived handler's fields in front) unmodified and emits exactly once per path; convertAttrToField has an arm for every log/slog.Kind constant declared by the loaded standard library, the Group arm converts every member and the LogValuer arm resolves and recurses")
	r.Rule("R15.4", "derived handlers keep the logger: the handler returned by WithAttrs/WithGroup carries the receiver's Logger (so destination, format and level) and a field list that is a fresh copy of the receiver's list plus what was given (no shared backing array between sibling handlers)")
	r.Rule("R15.5", "bridge: handlerWriter.Write decides admission by the logger's Enabled with the bridge severity, emits through WriteInternal exactly once on the admitted path with the bridge severity and the bytes given, and writeInternal strips exactly one trailing '\\n' (guarded by a length and last-byte test), passes the rest unmodified as the message and reports the original length")
	r.Assume("log/slog.Logger calls Handler.Enabled before Handler.Handle (standard library contract)")
	for _, tags := range c.Configs([]string{""}, []string{"", "verbose"}) {
		p := c.Prog(tags)
		if p == nil {
			continue
		}
		m, err := BuildModel(p)
		if err != nil {
			r.Unk("R15.1", "model", "-", "%v", err)
			continue
		}
		c15Tables(c, p, m)
		c12Mapping(c, p, m)
		c15Handler(c, p, m)
		handleDecision(c, p, m)
		c15Bridge(c, p, m)
		c01Decision(c, p, m)
		c02Newline(c, p, m)
		c16Timestamp(c, p, m)
		attrCopiesWhole(c, p, "R15.3")
		c15ThruList(c, p, m)
		c02Counts(c, p, m)
		c02Sink(c, p, m)
		c15HandlerModes(c, p, m)
		everyRoundCalls(c, p, "R15.4", "handler4LogSlog", "WithAttrs", "convertAttrToField", "an attribute given to WithAttrs (an inline group has an empty key) is missing from the derived handler and all its records")
		messageIdentity(c, p, "R05.10")
		for _, md := range []Mode{{true, true}, {false, true}} {
			mr15 := NewModeReach(p, m, md, sessionEntries(p), true)
			messageEmittedAsIs(c, p, m, mr15, "R05.10")
			if !md.JSON {
				c05Keys(c, p, m, mr15)
			}
		}
		c03Routing(c, p, m)
		c09Pooled(c, p, m, "R09.1", feasibleModes)
		c08Stores(c, p, m)
	}
	r.Rule("R08.1", "(shared with C08) a record carries all ITS attributes: nothing on the adapter's and the printer's path writes memory that outlives the call (a per-handler scratch list reused between records lets two overlapping Handle calls exchange their attributes)")
	r.Rule("R08.2", "(shared with C08) lists appended to or reordered in place belong to this call")
	r.Rule("R12.5", "(shared with C12) no foreign level becomes terminating")
	r.Rule("R01.3", "(shared with C01) exactly when the logger admits that severity: Entry.Enabled/EnabledContext apply Level.Enabled to the logger's own level as the holder and the requested severity as the argument")
	c.Floor["R15.1"] = 5
	c.Floor["R15.3"] = 7
	c.Floor["R15.5"] = 4
}

func c15Tables(c *Ctx, p *Prog, m *Model) {
	r := c.R
	std := p.Pkg("log/slog")
	if std == nil {
		r.Unk("R15.1", "log/slog", "-", "standard library package not loaded")
		return
	}
	stdLv := map[string]int64{}
	for _, n := range []string{"LevelDebug", "LevelInfo", "LevelWarn", "LevelError"} {
		if v, ok := p.ConstInt(std, n); ok {
			stdLv[n] = v
		}
	}
	want := map[int64]string{stdLv["LevelDebug"]: "DebugLevel", stdLv["LevelInfo"]: "InfoLevel", stdLv["LevelWarn"]: "WarnLevel", stdLv["LevelError"]: "ErrorLevel"}
	tbl, err := mapLiteral(p, p.Slog, "mLogSlogLevelToLevel")
	if err != nil {
		r.Unk("R15.1", "table:mLogSlogLevelToLevel", "-", "%v", err)
	} else {
		got := map[int64]string{}
		for _, kv := range tbl {
			k, _ := constant.Int64Val(constant.ToInt(kv.K))
			got[k] = m.constName(kv.V)
		}
		r.Check(fmt.Sprint(got) == fmt.Sprint(want), "R15.1", "table:mLogSlogLevelToLevel", p.Pos(p.Global(p.Slog, "mLogSlogLevelToLevel").Pos()), "Debug/Info/Warn/Error map to their namesakes and nothing else is mapped", fmt.Sprintf("the table is %v, expected %v", got, want))
	}
	// logsloglevel2Level agrees on the four
	if fn := p.Func(p.Slog, "logsloglevel2Level"); fn != nil {
		prm := fn.Params[0]
		for k, name := range want {
			a := map[string]bool{}
			// a lookup of the level in a package-level constant table: decided from the table's literal
			tableHit := func(lk *ssa.Lookup) (constant.Value, bool, bool) {
				g, isG := globalLoad(lk.X)
				if !isG || strip(lk.Index) != ssa.Value(prm) {
					return nil, false, false
				}
				lit, err := mapLiteral(p, p.Slog, g.Name())
				if err != nil {
					return nil, false, false
				}
				for _, kv := range lit {
					if kk, exact := constant.Int64Val(constant.ToInt(kv.K)); exact && kk == k {
						return kv.V, true, true
					}
				}
				return nil, false, true
			}
			t := walkDecision(fn.Blocks[0], a, func(cond ssa.Value) (string, bool) {
				if ex, isEx := cond.(*ssa.Extract); isEx && ex.Index == 1 {
					if lk, isLk := ex.Tuple.(*ssa.Lookup); isLk {
						if _, hit, ok := tableHit(lk); ok {
							key := "hit:" + lk.Name()
							a[key] = hit
							return key, true
						}
					}
				}
				bo, ok := cond.(*ssa.BinOp)
				if !ok || strip(bo.X) != ssa.Value(prm) {
					return "", false
				}
				cv, ok := constInt(bo.Y)
				if !ok {
					return "", false
				}
				var val bool
				switch bo.Op {
				case token.EQL:
					val = k == cv
				case token.NEQ:
					val = k != cv
				case token.LSS:
					val = k < cv
				case token.LEQ:
					val = k <= cv
				case token.GTR:
					val = k > cv
				case token.GEQ:
					val = k >= cv
				default:
					return "", false
				}
				key := fmt.Sprintf("%s%d", bo.Op, cv)
				a[key] = val
				return key, true
			}, nil)
			got := t.Kind
			if t.Kind == "return" {
				rv := resolveAlong(t.Instr.(*ssa.Return).Results[0], t.Path)
				got = m.levelStr(rv)
				if ex, isEx := rv.(*ssa.Extract); isEx && ex.Index == 0 {
					if lk, isLk := ex.Tuple.(*ssa.Lookup); isLk {
						if v, hit, ok := tableHit(lk); ok && hit {
							got = m.constName(v)
						}
					}
				}
			}
			r.Check(got == name, "R15.1", fmt.Sprintf("logsloglevel2Level(%d)", k), p.FuncPos(fn), "maps to "+name, fmt.Sprintf("Entry.Log's level mapping sends log/slog level %d to %s, its namesake is %s", k, got, name))
		}
	} else {
		r.Unk("R15.1", "logsloglevel2Level", "-", "not found")
	}
	// convertLogSlogLevel: table lookup, default non-terminating constant
	if fn := p.Func(p.Slog, "convertLogSlogLevel"); fn != nil {
		rets, _ := exitBlocks(fn)
		okTbl, okDef := false, true
		for _, b := range rets {
			for _, s := range sources(b.Instrs[len(b.Instrs)-1].(*ssa.Return).Results[0]) {
				if ex, ok := s.(*ssa.Extract); ok {
					if lk, ok := ex.Tuple.(*ssa.Lookup); ok {
						if g, ok := globalLoad(lk.X); ok && nm(g) == "mLogSlogLevelToLevel" && strip(lk.Index) == ssa.Value(fn.Params[0]) {
							okTbl = true
						}
					}
				} else if cv, ok := constInt(s); ok {
					if n := m.LevelByVal[cv]; n == "PanicLevel" || n == "FatalLevel" {
						okDef = false
					}
				} else {
					okDef = false
				}
			}
		}
		r.Check(okTbl && okDef, "R15.1", "convertLogSlogLevel", p.FuncPos(fn), "table lookup of the argument with a non-terminating default", "convertLogSlogLevel is not the table lookup of its argument with a non-terminating default")
	}
}

func c15Handler(c *Ctx, p *Prog, m *Model) {
	r := c.R
	en := p.Method(p.Slog, "handler4LogSlog", "Enabled")
	hd := p.Method(p.Slog, "handler4LogSlog", "Handle")
	if en == nil || hd == nil {
		r.Unk("R15.2", "handler4LogSlog", "-", "Enabled/Handle not found")
		return
	}
	// Enabled
	{
		var probs []string
		found := false
		for _, cs := range callsIn(en) {
			if invokeName(cs) != "EnabledContext" && invokeName(cs) != "Enabled" {
				continue
			}
			found = true
			if b, ok := isFieldLoadOf(cs.Common().Value, "handler4LogSlog", "Logger"); !ok || b != ssa.Value(receiver(en)) {
				probs = append(probs, "asks a logger other than the handler's own")
			}
			args := cs.Common().Args
			lv := args[len(args)-1]
			okLv := false
			if ex, ok := lv.(*ssa.Extract); ok && ex.Index == 0 {
				if lk, ok := ex.Tuple.(*ssa.Lookup); ok {
					if g, ok := globalLoad(lk.X); ok && nm(g) == "mLogSlogLevelToLevel" && strip(lk.Index) == ssa.Value(en.Params[2]) {
						okLv = true
					}
				}
			}
			if call, ok := lv.(*ssa.Call); ok {
				if cal := calleeOf(call); cal != nil && nm(cal) == "convertLogSlogLevel" && call.Common().Args[0] == ssa.Value(en.Params[2]) {
					okLv = true
				}
			}
			if !okLv {
				probs = append(probs, "the severity asked about is not the table image of the level given")
			}
			if invokeName(cs) == "EnabledContext" && args[0] != ssa.Value(en.Params[1]) {
				probs = append(probs, "the caller's context is not passed on")
			}
			// its result is what is returned
			retOK := false
			rets, _ := exitBlocks(en)
			for _, b := range rets {
				if b.Instrs[len(b.Instrs)-1].(*ssa.Return).Results[0] == cs.Value() {
					retOK = true
				}
			}
			if !retOK {
				probs = append(probs, "the logger's answer is not returned as is")
			}
		}
		if !found {
			probs = append(probs, "does not ask the underlying logger")
		}
		// decision function: the answer depends on nothing but "is the level one of the table's" - for a mapped
		// level it is the logger's own answer on every path (no cached threshold, no shortcut)
		for _, mapped := range []bool{true, false} {
			t := walkDecision(en.Blocks[0], map[string]bool{"mapped": mapped}, func(cond ssa.Value) (string, bool) {
				if ex, ok := cond.(*ssa.Extract); ok && ex.Index == 1 {
					if lk, ok := ex.Tuple.(*ssa.Lookup); ok {
						if g, ok := globalLoad(lk.X); ok && nm(g) == "mLogSlogLevelToLevel" {
							return "mapped", true
						}
					}
				}
				return "", false
			}, nil)
			if t.Kind != "return" {
				probs = append(probs, "the answer depends on a condition other than the level table ("+t.Kind+"): it can differ from the logger's own gating")
				continue
			}
			if mapped {
				v := resolveAlong(t.Instr.(*ssa.Return).Results[0], t.Path)
				call, isCall := v.(*ssa.Call)
				if !isCall || (invokeName(call) != "EnabledContext" && invokeName(call) != "Enabled") {
					probs = append(probs, "for a level of the table the answer is "+m.valDesc(v)+", not the logger's own answer")
				}
			} else {
				// a level outside the table is still a record to be emitted once (Handle maps it by its band): the handler
				// must not refuse it; the answer is true, or the logger's own answer
				v := resolveAlong(t.Instr.(*ssa.Return).Results[0], t.Path)
				if cb, isC := constBool(v); isC && !cb {
					probs = append(probs, "a level outside the table (INFO+2, WARN+1, DEBUG-4 ...) is refused by Enabled: log/slog then never calls Handle and the record is emitted zero times")
				}
			}
		}
		r.Check(len(probs) == 0, "R15.2", "handler4LogSlog.Enabled", p.FuncPos(en), "returns the logger's EnabledContext(ctx, mapped level)", strings.Join(probs, "; "))
	}
	// Handle
	{
		var lvl ssa.Value
		for _, cs := range callsIn(hd) {
			if cal := calleeOf(cs); cal != nil && nm(cal) == "convertLogSlogLevel" {
				lvl = cs.Value()
				// argument is rec.Level
				if !isRecField(cs.Common().Args[0], "Level") {
					r.Bad("R15.2", "Handle:level", p.Pos(instrPos(cs)), "the severity is not derived from the record's own level")
				}
			}
		}
		r.Check(lvl != nil, "R15.2", "Handle:mapping", p.FuncPos(hd), "Handle maps the record's level with convertLogSlogLevel (same table as Enabled)", "Handle does not map the record's level through the table Enabled uses")
		// emission calls
		isEmit := func(in ssa.Instruction) bool {
			cs, ok := in.(ssa.CallInstruction)
			if !ok {
				return false
			}
			n := invokeName(cs)
			return n == "WriteThru" || n == "LogAttrs" || n == "Logit"
		}
		lo, hi := countOnPaths(hd, isEmit)
		r.Check(lo == 1 && hi == 1, "R15.3", "Handle:once", p.FuncPos(hd), "exactly one emission on every path", fmt.Sprintf("Handle emits %d..%d times per record", lo, hi))
		conv := p.Func(p.Slog, "convertLogSlogRecordAttrs")
		for _, cs := range callsIn(hd) {
			switch invokeName(cs) {
			case "WriteThru":
				a := cs.Common().Args
				var probs []string
				if len(a) != 6 {
					probs = append(probs, "unexpected arity")
				} else {
					if a[1] != lvl {
						probs = append(probs, "severity is not the mapped level")
					}
					if !isRecField(a[2], "Time") {
						probs = append(probs, "timestamp is not the record's own time")
					}
					if !isRecField(a[4], "Message") {
						probs = append(probs, "message is not the record's own message, unmodified")
					}
					if call, ok := a[5].(*ssa.Call); !ok || calleeOf(call) != conv {
						probs = append(probs, "attributes are not the converted record attributes")
					}
					if a[0] != ssa.Value(hd.Params[1]) {
						probs = append(probs, "the caller's context is not passed on")
					}
				}
				r.Check(len(probs) == 0, "R15.3", "Handle:WriteThru-args", p.Pos(instrPos(cs)), "mapped level, record time, record message, converted attributes", strings.Join(probs, "; "))
			case "LogAttrs", "Logit":
				a := cs.Common().Args
				ok := len(a) >= 3 && a[1] == lvl && isRecField(a[2], "Message")
				r.Check(ok, "R15.3", "Handle:LogAttrs-args", p.Pos(instrPos(cs)), "mapped level and record message", "the fallback emission does not carry the mapped level and the record's message")
			}
		}
		// convertLogSlogRecordAttrs: pre first, then every record attribute through convertAttrToField
		if conv != nil {
			caf := p.Func(p.Slog, "convertAttrToField")
			var probs []string
			preFirst := false
			for _, b := range conv.Blocks {
				for _, in := range b.Instrs {
					if call, ok := in.(*ssa.Call); ok && isBuiltinCall(call, "append") {
						if dependsOnParam(call.Common().Args[1], conv.Params[1]) {
							preFirst = true
						}
					}
				}
			}
			if !preFirst {
				probs = append(probs, "the handler's own fields are not put in front")
			}
			each := false
			for _, an := range conv.AnonFuncs {
				for _, cs := range callsIn(an) {
					if calleeOf(cs) == caf && cs.Common().Args[0] == ssa.Value(an.Params[0]) {
						each = true
					}
				}
				rets, _ := exitBlocks(an)
				for _, b := range rets {
					if v, ok := constBool(b.Instrs[len(b.Instrs)-1].(*ssa.Return).Results[0]); !ok || !v {
						probs = append(probs, "the attribute walk can stop early")
					}
				}
			}
			if !each {
				probs = append(probs, "record attributes are not each converted")
			}
			viaAttrs := false
			for _, cs := range callsIn(conv) {
				if cal := calleeOf(cs); cal != nil && cal.String() == "(log/slog.Record).Attrs" {
					viaAttrs = true
				}
			}
			if !viaAttrs {
				probs = append(probs, "does not walk rec.Attrs")
			}
			// no way out of the conversion that bypasses the handler's fields or the walk (e.g. a fast path for records
			// without attributes of their own)
			rets, _ := exitBlocks(conv)
			for _, rb := range rets {
				okPre, okWalk := false, false
				for _, b := range conv.Blocks {
					if !b.Dominates(rb) {
						continue
					}
					for _, in := range b.Instrs {
						if call, ok := in.(*ssa.Call); ok {
							if isBuiltinCall(call, "append") && dependsOnParam(call.Common().Args[1], conv.Params[1]) {
								okPre = true
							}
							if cal := calleeOf(call); cal != nil && cal.String() == "(log/slog.Record).Attrs" {
								okWalk = true
							}
						}
					}
				}
				if ret := rb.Instrs[len(rb.Instrs)-1].(*ssa.Return); len(ret.Results) == 1 && ret.Results[0] == ssa.Value(conv.Params[1]) {
					okPre = true // returns the handler's fields themselves
				}
				if !okPre {
					probs = append(probs, "a return at "+p.Pos(instrPos(rb.Instrs[len(rb.Instrs)-1]))+" is reached without the handler's own fields having been put into the result (fields bound by WithAttrs/WithGroup are lost for such records)")
				}
				if !okWalk && okPre {
					probs = append(probs, "a return at "+p.Pos(instrPos(rb.Instrs[len(rb.Instrs)-1]))+" is reached without the walk over the record's attributes")
				}
			}
			r.Check(len(probs) == 0, "R15.3", "convertLogSlogRecordAttrs", p.FuncPos(conv), "handler fields first, then every record attribute converted", strings.Join(probs, "; "))
		}
		// exhaustive Kind switch
		if caf := p.Func(p.Slog, "convertAttrToField"); caf != nil {
			std := p.Pkg("log/slog")
			kindT := p.NamedType(std, "Kind")
			kinds := map[int64]string{}
			sc := std.Pkg.Scope()
			for _, n := range sc.Names() {
				if cst, ok := sc.Lookup(n).(*types.Const); ok && kindT != nil && types.Identical(cst.Type(), kindT) {
					v, _ := constant.Int64Val(cst.Val())
					kinds[v] = n
				}
			}
			handled := map[int64]bool{}
			for _, b := range caf.Blocks {
				for _, in := range b.Instrs {
					if bo, ok := in.(*ssa.BinOp); ok && bo.Op == token.EQL && kindT != nil && types.Identical(bo.X.Type(), kindT) {
						if cv, ok := constInt(bo.Y); ok {
							handled[cv] = true
						}
					}
				}
			}
			var missing []string
			for v, n := range kinds {
				if !handled[v] && n != "KindAny" {
					missing = append(missing, n)
				}
			}
			sort.Strings(missing)
			r.Check(len(missing) == 0 && len(kinds) >= 10, "R15.3", "convertAttrToField:exhaustive", p.FuncPos(caf), fmt.Sprintf("an arm for each of the %d kinds of the loaded log/slog (Any by default)", len(kinds)), fmt.Sprintf("no arm for %v: values of that kind fall to the generic Any arm", missing))
			// each arm passes attr.Key and the value accessor of the same kind
			for _, b := range caf.Blocks {
				for _, in := range b.Instrs {
					cs, ok := in.(ssa.CallInstruction)
					if !ok {
						continue
					}
					cal := calleeOf(cs)
					if cal == nil || cal.Pkg != p.Slog || cal == caf || len(cs.Common().Args) != 2 {
						continue
					}
					if !isAttrKey(cs.Common().Args[0], caf.Params[0]) {
						r.Bad("R15.3", "convertAttrToField:key:"+nm(cal), p.Pos(instrPos(cs)), "the converted attribute does not keep the log/slog attribute's key")
					}
					// ... and the accessor is the one of the arm's own kind: Bool(key, v.Bool()), Any(key, v.Any()); the text
					// accessor String() in another arm renders the value with fmt.Sprint instead of handing it on
					for v := cs.Common().Args[1]; ; {
						if cv, isCv := v.(*ssa.Convert); isCv {
							v = cv.X
							continue
						}
						if mi, isMI := v.(*ssa.MakeInterface); isMI {
							v = mi.X
							continue
						}
						if acc, isCall := v.(*ssa.Call); isCall {
							if ac := calleeOf(acc); ac != nil && ac.Pkg != nil && ac.Pkg.Pkg.Path() == "log/slog" && ac.Signature.Recv() != nil && typeName(ac.Signature.Recv().Type()) == "Value" {
								r.Check(ac.Name() == nm(cal), "R15.3", "convertAttrToField:accessor:"+nm(cal), p.Pos(instrPos(cs)), "the arm reads the value with the accessor of its own kind ("+ac.Name()+")",
									"the "+nm(cal)+" arm reads the value with Value."+ac.Name()+"(): the attribute does not arrive with its value (Value.String() of a non-string kind is its fmt.Sprint text)")
							}
						}
						break
					}
					// the value is the accessor's result itself: no conversion that loses part of its range
					var lossy []string
					for v := cs.Common().Args[1]; ; {
						cv, ok := v.(*ssa.Convert)
						if !ok {
							break
						}
						sb, tb := intBits(cv.X.Type()), intBits(cv.Type())
						if sb > 0 && tb > 0 {
							su, tu := isUnsigned(cv.X.Type()), isUnsigned(cv.Type())
							if tb < sb || (su != tu && !(su && tb > sb)) {
								lossy = append(lossy, fmt.Sprintf("%s converted to %s", cv.X.Type(), cv.Type()))
							}
						} else if sb > 0 || tb > 0 {
							if bt, ok := cv.Type().Underlying().(*types.Basic); ok && bt.Info()&types.IsFloat != 0 && sb > 32 {
								lossy = append(lossy, fmt.Sprintf("%s converted to %s", cv.X.Type(), cv.Type()))
							}
							if bt, ok := cv.X.Type().Underlying().(*types.Basic); ok && bt.Info()&types.IsFloat != 0 && tb > 0 {
								lossy = append(lossy, fmt.Sprintf("%s converted to %s", cv.X.Type(), cv.Type()))
							}
						}
						v = cv.X
					}
					r.Check(len(lossy) == 0, "R15.3", "convertAttrToField:value:"+nm(cal), p.Pos(instrPos(cs)), "the value handed on is the accessor's result without a range-losing conversion",
						"a log/slog value does not arrive with its value: "+strings.Join(lossy, "; ")+" (values outside the target's range wrap or are rounded)")
				}
			}
			// group arm converts all members, LogValuer resolves
			reach := staticReach([]*ssa.Function{caf}, func(f *ssa.Function) bool { return f.Pkg != p.Slog })
			grp := p.Func(p.Slog, "convertGroupToFields")
			okGrp := grp != nil && reach[grp]
			if okGrp {
				okGrp = false
				for _, cs := range callsIn(grp) {
					if calleeOf(cs) == caf && inLoop(cs.Block()) {
						okGrp = true
					}
				}
				for _, b := range grp.Blocks {
					for _, g := range guardsOf(b) {
						if d := m.guardDesc(g); !strings.Contains(d, "phi") {
							okGrp = false
						}
					}
				}
			}
			r.Check(okGrp, "R15.3", "convertAttrToField:group", p.FuncPos(caf), "every member of a group is converted recursively", "group members are not all converted recursively")
			res := false
			for _, cs := range callsIn(caf) {
				if cal := calleeOf(cs); cal != nil && cal.String() == "(log/slog.Value).Resolve" {
					res = true
					// what Resolve returns can be of any kind (a group included): it goes through the kind switch again,
					// not straight to the generic Any arm
					rc, _ := cs.(*ssa.Call)
					again := false
					for _, c2 := range callsIn(caf) {
						if calleeOf(c2) == caf && cs.Block().Dominates(c2.Block()) {
							again = true
						}
					}
					if !again {
						// loop form: the resolved value replaces the attribute's value and the kind switch runs again
						if _, body := natLoop(cs.Block()); body != nil {
							for _, c2 := range callsIn(caf) {
								if cal2 := calleeOf(c2); cal2 != nil && cal2.String() == "(log/slog.Value).Kind" && body[c2.Block()] {
									again = true
								}
							}
						}
					}
					direct := false
					if rc != nil {
						for _, ref := range *rc.Referrers() {
							if c3, ok := ref.(ssa.CallInstruction); ok {
								if cal3 := calleeOf(c3); cal3 != nil && cal3.Pkg != nil && cal3.Pkg.Pkg.Path() == "log/slog" && cal3.Name() != "Resolve" {
									direct = true
								}
							}
						}
					}
					r.Check(again && !direct, "R15.3", "convertAttrToField:logvaluer-kind", p.Pos(instrPos(cs)), "the resolved value goes through the kind switch again", "the value a LogValuer resolves to is taken by a generic accessor instead of going through the kind switch again: a resolved group is not nested and its members are not converted")
				}
			}
			r.Check(res, "R15.3", "convertAttrToField:logvaluer", p.FuncPos(caf), "LogValuers are resolved", "LogValuer values are not resolved")
		}
	}
	c15Derived(c, p, m)
}

// c15Derived (R15.4): derived handlers keep the logger and own a fresh field list.
func c15Derived(c *Ctx, p *Prog, m *Model) {
	r := c.R
	// R15.4
	wf := p.Method(p.Slog, "handler4LogSlog", "withFields")
	if wf == nil {
		r.Unk("R15.4", "handler4LogSlog.withFields", "-", "not found")
	} else {
		var probs []string
		okLogger, okFields := false, false
		for _, fs := range fieldStores(wf) {
			if fs.Struct != "handler4LogSlog" || provenance(fs.Base, wf) != "fresh" {
				continue
			}
			switch fs.Field {
			case "Logger":
				if b, ok := isFieldLoadOf(fs.Val, "handler4LogSlog", "Logger"); ok && b == ssa.Value(receiver(wf)) {
					okLogger = true
				} else {
					probs = append(probs, "the derived handler's logger is "+provenance(fs.Val, wf)+", not the receiver's logger: it loses the destination, format and level")
				}
			case "fields":
				// append(append(fresh, s.fields...), fields...)
				outer, ok := strip(fs.Val).(*ssa.Call)
				if ok {
					// the library form: slices.Concat(old, new) always returns a fresh array holding its operands in order
					if cal := calleeOf(outer); cal != nil && origin(cal).String() == "slices.Concat" {
						iOld, iNew := -1, -1
						var operands []ssa.Value
						if sl, isSl := outer.Common().Args[0].(*ssa.Slice); isSl {
							if al, isAl := sl.X.(*ssa.Alloc); isAl {
								for _, ref := range *al.Referrers() {
									if ia, isIA := ref.(*ssa.IndexAddr); isIA {
										k, _ := constInt(ia.Index)
										for _, r2 := range *ia.Referrers() {
											if st, isSt := r2.(*ssa.Store); isSt {
												for int64(len(operands)) <= k {
													operands = append(operands, nil)
												}
												operands[k] = st.Val
											}
										}
									}
								}
							}
						}
						for i, o := range operands {
							if o == nil {
								continue
							}
							if dependsOnFieldLoad(o, "handler4LogSlog", "fields") {
								iOld = i
							}
							if dependsOnParam(o, wf.Params[len(wf.Params)-1]) {
								iNew = i
							}
						}
						switch {
						case iOld < 0:
							probs = append(probs, "the receiver's fields are dropped")
						case iNew < 0:
							probs = append(probs, "the fields given are not added")
						case iOld > iNew:
							probs = append(probs, "the fields given are put in front of the receiver's fields")
						default:
							okFields = true
						}
						break
					}
				}
				if !ok || !isBuiltinCall(outer, "append") {
					probs = append(probs, "the field list is not built by appending")
					break
				}
				hasOld, hasNew, freshBase := false, false, true
				dOld, dNew := -1, -1 // position in the chain: 0 = appended last
				cur := outer
				for depth := 0; cur != nil && depth < 4; depth++ {
					arg1 := cur.Common().Args[1]
					if dependsOnFieldLoad(arg1, "handler4LogSlog", "fields") {
						hasOld = true
						dOld = depth
					}
					if dependsOnParam(arg1, wf.Params[len(wf.Params)-1]) {
						hasNew = true
						if dNew < 0 {
							dNew = depth
						}
					}
					base := strip(cur.Common().Args[0])
					if inner, ok := base.(*ssa.Call); ok && isBuiltinCall(inner, "append") {
						cur = inner
						continue
					}
					// base of the chain: must be nil / fresh, never the receiver's own slice
					if _, ok := isFieldLoadOf(base, "handler4LogSlog", "fields"); ok {
						freshBase = false
					}
					if call, ok := base.(*ssa.Call); ok {
						if cal := calleeOf(call); cal != nil && (nm(cal) == "Clip" || nm(cal) == "Clone") {
							hasOld = true
							dOld = depth + 1
						}
					}
					cur = nil
				}
				if !freshBase {
					probs = append(probs, "the new field list is appended onto the receiver's own slice: two handlers derived from the same parent share (and overwrite) the spare capacity of its backing array")
				}
				if !hasOld {
					probs = append(probs, "the receiver's fields are dropped")
				}
				if !hasNew {
					probs = append(probs, "the fields given are not added")
				}
				if hasOld && hasNew && dOld >= 0 && dNew >= 0 && dOld <= dNew {
					probs = append(probs, "the fields given are put in front of the receiver's fields: among equal keys the last one wins, so a key bound again by a later With/WithGroup keeps the parent's old value")
				}
				okFields = freshBase && hasOld && hasNew
			}
		}
		if !okLogger && len(probs) == 0 {
			probs = append(probs, "the derived handler's Logger is never set")
		}
		r.Check(okLogger && okFields && len(probs) == 0, "R15.4", "handler4LogSlog.withFields", p.FuncPos(wf), "same logger; fields = fresh copy of the receiver's + the given ones", strings.Join(probs, "; "))
		// deriving a handler never edits an attribute object: groups and attributes reachable from a handler are shared
		// with its parent and its siblings (a clone copies pointers), so Add / SetValue on one of them shows in the
		// records of the other handlers and races with their logging
		{
			var muts []string
			roots := []*ssa.Function{wf}
			for _, n := range []string{"WithAttrs", "WithGroup"} {
				if f := p.Method(p.Slog, "handler4LogSlog", n); f != nil {
					roots = append(roots, f)
				}
			}
			for g := range staticReach(roots, func(f *ssa.Function) bool {
				return f.Pkg != p.Slog || (f.Signature.Recv() != nil && typeName(f.Signature.Recv().Type()) != "handler4LogSlog")
			}) {
				for _, cs := range callsIn(g) {
					name := ""
					if cal := calleeOf(cs); cal != nil && cal.Pkg == p.Slog && cal.Signature.Recv() != nil {
						name = nm(cal)
					} else if cs.Common().IsInvoke() {
						name = nm(cs.Common().Method)
					}
					if name == "Add" || name == "SetValue" {
						muts = append(muts, shortName(g)+" calls "+name+" at "+p.Pos(instrPos(cs)))
					}
				}
			}
			sort.Strings(muts)
			r.Check(len(muts) == 0, "R15.4", "handler4LogSlog:derive-without-mutation", p.FuncPos(wf), "deriving a handler edits no attribute object", "deriving a handler edits a shared attribute object ("+strings.Join(muts, "; ")+"): the records of the parent and of sibling handlers change, and the edit races with their logging")
		}
		for _, n := range []string{"WithAttrs", "WithGroup"} {
			fn := p.Method(p.Slog, "handler4LogSlog", n)
			ok := fn != nil && len(callsTo(fn, wf)) > 0
			if ok {
				for _, cs := range callsTo(fn, wf) {
					if cs.Common().Args[0] != ssa.Value(receiver(fn)) {
						ok = false
					}
				}
			}
			r.Check(ok, "R15.4", "handler4LogSlog."+n, p.FuncPos(fn), "derives through withFields on the receiver", n+" does not derive the new handler from the receiver through withFields")
		}
	}
}

func isRecField(v ssa.Value, field string) bool {
	b, st, f, ok := fieldLoad(strip(v))
	_ = st
	if !ok || nm(f) != field {
		return false
	}
	return strings.HasSuffix(b.Type().String(), "log/slog.Record")
}

func isAttrKey(v ssa.Value, attr *ssa.Parameter) bool {
	b, _, f, ok := fieldLoad(strip(v))
	if !ok || nm(f) != "Key" {
		return false
	}
	// attr is a struct parameter spilled to a local
	for _, s := range sources(b) {
		if s == ssa.Value(attr) {
			return true
		}
		if al, ok := s.(*ssa.Alloc); ok {
			for _, ref := range *al.Referrers() {
				if st, ok := ref.(*ssa.Store); ok && st.Val == ssa.Value(attr) {
					return true
				}
			}
		}
	}
	return false
}

func c15Bridge(c *Ctx, p *Prog, m *Model) {
	r := c.R
	hw := p.Method(p.Slog, "handlerWriter", "Write")
	if hw == nil {
		r.Unk("R15.5", "handlerWriter.Write", "-", "not found")
		return
	}
	var wi ssa.CallInstruction
	n := 0
	for _, cs := range callsIn(hw) {
		if invokeName(cs) == "WriteInternal" {
			wi = cs
			n++
		}
	}
	if wi == nil || n != 1 {
		r.Bad("R15.5", "handlerWriter.Write:emit", p.FuncPos(hw), "%d WriteInternal calls; exactly one expected", n)
	} else {
		var probs []string
		g, why := m.localGateGeneric(wi, hw)
		if !g {
			probs = append(probs, why)
		}
		a := wi.Common().Args
		if b, ok := isFieldLoadOf(a[1], "handlerWriter", "lvl"); !ok || b != ssa.Value(receiver(hw)) {
			probs = append(probs, "the record is not emitted at the bridge's severity")
		}
		if a[3] != ssa.Value(hw.Params[1]) {
			probs = append(probs, "the bytes given are not handed on unmodified")
		}
		if b, ok := isFieldLoadOf(wi.Common().Value, "handlerWriter", "l"); !ok {
			// through typeassert extract
			okv := false
			for _, s := range sources(wi.Common().Value) {
				if ex, ok := s.(*ssa.Extract); ok {
					if ta, ok := ex.Tuple.(*ssa.TypeAssert); ok {
						if bb, ok := isFieldLoadOf(ta.X, "handlerWriter", "l"); ok && bb == ssa.Value(receiver(hw)) {
							okv = true
						}
					}
				}
			}
			if !okv {
				probs = append(probs, "emits through a logger other than the bridge's")
			}
		} else {
			_ = b
		}
		// result of WriteInternal is what Write returns on the admitted path
		r.Check(len(probs) == 0, "R15.5", "handlerWriter.Write:emit", p.Pos(instrPos(wi)), "gated by the logger's Enabled(bridge severity); one WriteInternal(bridge severity, pc, buf)", strings.Join(probs, "; "))
	}
	nl := p.Func(p.Slog, "NewLogLogger")
	if nl != nil {
		ok := false
		for _, fs := range fieldStores(nl) {
			if fs.Struct == "handlerWriter" && fs.Field == "lvl" && fs.Val == ssa.Value(nl.Params[1]) {
				ok = true
			}
		}
		ok2 := false
		for _, fs := range fieldStores(nl) {
			if fs.Struct == "handlerWriter" && fs.Field == "l" && fs.Val == ssa.Value(nl.Params[0]) {
				ok2 = true
			}
		}
		r.Check(ok && ok2, "R15.5", "NewLogLogger", p.FuncPos(nl), "the bridge carries the logger and severity given", "NewLogLogger does not store the logger and severity given into the bridge")
		// what the std logger writes to is the bridge itself: log.Logger hands each message over in ONE Write, and a
		// writer put in between (line splitting, buffering) turns one message into several records or none
		for _, cs := range callsIn(nl) {
			cal := calleeOf(cs)
			if cal == nil || cal.String() != "log.New" {
				continue
			}
			direct := false
			for _, sv := range sources(cs.Common().Args[0]) {
				t := sv.Type()
				if mi, isMI := sv.(*ssa.MakeInterface); isMI {
					t = mi.X.Type()
				}
				if nt := namedOf(t); nt != nil && nm(nt.Obj()) == "handlerWriter" {
					direct = true
					continue
				}
				direct = false
				break
			}
			r.Check(direct, "R15.5", "NewLogLogger:direct", p.Pos(instrPos(cs)), "the std logger writes to the bridge itself", "the writer given to log.New is not the bridge itself but something put in front of it: the one-Write-per-message contract of log.Logger no longer reaches the bridge (a multi-line message becomes several records)")
		}
	}
	// writeInternal
	wr := p.Method(p.Slog, "Entry", "writeInternal")
	if wr == nil {
		wr = p.Method(p.Slog, "Entry", "WriteInternal") // the private half folded into the exported entry point
	}
	if wr == nil {
		r.Unk("R15.5", "Entry.writeInternal", "-", "not found")
		return
	}
	var buf *ssa.Parameter
	for _, q := range wr.Params {
		if isByteSlice(q.Type()) {
			buf = q
		}
	}
	var pr ssa.CallInstruction
	for _, cs := range callsIn(wr) {
		if cal := calleeOf(cs); cal != nil && nm(cal) == "print" {
			pr = cs
		}
	}
	if buf == nil || pr == nil {
		r.Bad("R15.5", "Entry.writeInternal", p.FuncPos(wr), "does not print the bytes given")
		return
	}
	var probs []string
	lo, hi := countOnPaths(wr, func(in ssa.Instruction) bool { return in == ssa.Instruction(pr) })
	if lo != 1 || hi != 1 {
		probs = append(probs, fmt.Sprintf("prints %d..%d times", lo, hi))
	}
	// message = string(phi[buf, buf[:len(buf)-1]])
	var msg ssa.Value
	for _, a := range pr.Common().Args {
		if a.Type().String() == "string" {
			msg = a
		}
	}
	cv, ok := msg.(*ssa.Convert)
	if !ok {
		probs = append(probs, "the message is not simply the bytes given converted to a string ("+m.valDesc(msg)+")")
	} else {
		for i, s := range phiEdges(cv.X) {
			if s == ssa.Value(buf) {
				continue
			}
			// the library form of the same operation: bytes.TrimSuffix(buf, "\n") drops exactly one trailing newline when there is one
			if call, isCall := s.(*ssa.Call); isCall {
				if cal := calleeOf(call); cal != nil && (cal.String() == "bytes.TrimSuffix" || cal.String() == "strings.TrimSuffix") && call.Common().Args[0] == ssa.Value(buf) {
					if isNewlineConst(call.Common().Args[1]) {
						continue
					}
				}
			}
			sl, isSl := s.(*ssa.Slice)
			good := isSl && sl.X == ssa.Value(buf) && sl.Low == nil
			if good {
				l, okL := linOf(sl.High)
				good = okL && l.c == -1 && len(l.atoms) == 1
				for at := range l.atoms {
					if call, ok := at.(*ssa.Call); !ok || !isBuiltinCall(call, "len") || call.Common().Args[0] != ssa.Value(buf) {
						good = false
					}
				}
			}
			if !good {
				probs = append(probs, "the message is cut or transformed other than by dropping one trailing byte ("+m.valDesc(s)+")")
				continue
			}
			// guarded by len>0 and last byte == '\n'
			ph, isPhi := cv.X.(*ssa.Phi)
			blk := sl.Block()
			if isPhi {
				blk = ph.Block().Preds[i]
			}
			lenG, nlG := false, false
			for _, g := range guardsOf(blk) {
				cond, neg := normCond(g.If.Cond)
				// "the buffer is not empty", in any linear form: len(buf) > 0, len(buf) != 0, len(buf)-1 >= 0, ...
				if bo, ok := cond.(*ssa.BinOp); ok {
					if l, okL := linOf(bo.X); okL && len(l.atoms) == 1 {
						isLen := false
						for at, k := range l.atoms {
							if call, ok := at.(*ssa.Call); ok && k == 1 && isBuiltinCall(call, "len") && call.Common().Args[0] == ssa.Value(buf) {
								isLen = true
							}
						}
						if z, isC := constInt(bo.Y); isC && isLen {
							op := bo.Op
							if (g.Succ == 0) == neg { // the condition is false on this edge
								op = map[token.Token]token.Token{token.GTR: token.LEQ, token.GEQ: token.LSS, token.LSS: token.GEQ, token.LEQ: token.GTR, token.EQL: token.NEQ, token.NEQ: token.EQL}[op]
							}
							d := z - l.c // len(buf) op d
							if (op == token.GTR && d >= 0) || (op == token.GEQ && d >= 1) || (op == token.NEQ && d == 0) {
								lenG = true
							}
						}
					}
				}
				if bo, ok := cond.(*ssa.BinOp); ok && bo.Op == token.EQL && (g.Succ == 0) != neg {
					if v, ok := constInt(bo.Y); ok && v == '\n' {
						if u, ok := bo.X.(*ssa.UnOp); ok {
							if ia, ok := u.X.(*ssa.IndexAddr); ok && ia.X == ssa.Value(buf) {
								if l, ok := linOf(ia.Index); ok && l.c == -1 {
									nlG = true
								}
							}
						}
					}
				}
			}
			if !lenG || !nlG {
				probs = append(probs, "the trailing byte is dropped without testing that it exists and is '\\n'")
			}
		}
	}
	// reports the original length
	rets, _ := exitBlocks(wr)
	for _, b := range rets {
		ret := b.Instrs[len(b.Instrs)-1].(*ssa.Return)
		call, ok := ret.Results[0].(*ssa.Call)
		if !ok || !isBuiltinCall(call, "len") || call.Common().Args[0] != ssa.Value(buf) {
			probs = append(probs, "does not report the original length as written")
		}
		if !isNilConst(ret.Results[1]) {
			probs = append(probs, "may report an error")
		}
	}
	// severity and pc passed on
	if pr.Common().Args[2] != ssa.Value(wr.Params[2]) {
		probs = append(probs, "the severity given is not passed on")
	}
	r.Check(len(probs) == 0, "R15.5", "Entry.writeInternal", p.FuncPos(wr), "drops exactly one trailing newline (tested), prints the rest once, reports len(buf)", strings.Join(dedupStr(probs), "; "))
	if wI := p.Method(p.Slog, "Entry", "WriteInternal"); wI == wr && wI != nil {
		r.Ok("R15.5", "Entry.WriteInternal", p.FuncPos(wI), "holds the newline stripping itself (decided above)")
	} else if wI != nil {
		ok := false
		for _, cs := range callsTo(wI, wr) {
			ok = true
			for i := range wI.Params {
				if cs.Common().Args[i] != ssa.Value(wI.Params[i]) {
					ok = false
				}
			}
		}
		r.Check(ok, "R15.5", "Entry.WriteInternal", p.FuncPos(wI), "forwards its arguments unchanged", "WriteInternal does not forward its arguments unchanged")
	}
}

// localGateGeneric: like localGate but for an emission call made through an interface; the gate must ask the
// same logger field with the same severity field.
func (m *Model) localGateGeneric(site ssa.CallInstruction, fn *ssa.Function) (bool, string) {
	args := site.Common().Args
	var siteLvl ssa.Value
	for _, a := range args {
		if m.isLevel(a.Type()) {
			siteLvl = a
		}
	}
	why := "no admission test dominates the emission"
	for _, g := range guardsOf(site.Block()) {
		cond, neg := normCond(g.If.Cond)
		_, recv, lvl, ok := m.gateCallOf(cond)
		if !ok {
			continue
		}
		want := 0
		if neg {
			want = 1
		}
		if g.Succ != want {
			why = "the emission is on the rejecting edge of the admission test"
			continue
		}
		if exprKey(strip(lvl)) != exprKey(strip(siteLvl)) {
			why = "the admission test uses another severity than the one emitted"
			continue
		}
		// same logger: both derive from the same field of the receiver
		rk := exprKey(strip(recv))
		sk := ""
		for _, s := range sources(site.Common().Value) {
			if ex, ok := s.(*ssa.Extract); ok {
				if ta, ok := ex.Tuple.(*ssa.TypeAssert); ok {
					sk = exprKey(strip(ta.X))
				}
			} else {
				sk = exprKey(strip(s))
			}
		}
		if rk != sk {
			why = "the admission test asks another logger than the one that emits"
			continue
		}
		return true, ""
	}
	return false, why
}

// isNewlineConst: v is the constant "\n" as a string or as a byte slice literal / conversion.
func isNewlineConst(v ssa.Value) bool {
	if str, ok := constString(v); ok {
		return str == "\n"
	}
	if cv, ok := v.(*ssa.Convert); ok {
		if str, ok := constString(cv.X); ok {
			return str == "\n"
		}
	}
	// []byte{'\n'}: slice of a fresh one-element array storing '\n'
	if sl, ok := v.(*ssa.Slice); ok {
		if al, ok := sl.X.(*ssa.Alloc); ok {
			if at, ok := al.Type().(*types.Pointer).Elem().Underlying().(*types.Array); ok && at.Len() == 1 {
				for _, ref := range *al.Referrers() {
					if ia, ok := ref.(*ssa.IndexAddr); ok {
						for _, r2 := range *ia.Referrers() {
							if st, ok := r2.(*ssa.Store); ok {
								if c, ok := constInt(st.Val); ok && c == '\n' {
									return true
								}
							}
						}
					}
				}
			}
		}
	}
	return false
}

// c15ThruList: the attribute list WriteThru hands to the printer is the record's list (or its clone): nothing is
// added to it on the way (values picked from the context would shadow a record attribute of the same key).
func c15ThruList(c *Ctx, p *Prog, m *Model) {
	r := c.R
	wt := p.Method(p.Slog, "Entry", "WriteThru")
	pr := p.Method(p.Slog, "Entry", "print")
	if wt == nil || pr == nil {
		r.Unk("R15.3", "WriteThru:list", "-", "WriteThru / print not found")
		return
	}
	var ap *ssa.Parameter
	for _, q := range wt.Params {
		if sl, ok := q.Type().Underlying().(*types.Slice); ok && typeName(sl.Elem()) == "Attr" {
			ap = q
		}
	}
	n := 0
	for _, cs := range callsTo(wt, pr) {
		for _, a := range cs.Common().Args {
			if sl, ok := a.Type().Underlying().(*types.Slice); !ok || typeName(sl.Elem()) != "Attr" {
				continue
			}
			n++
			v := strip(a)
			ok := ap != nil && v == ssa.Value(ap)
			if call, isCall := v.(*ssa.Call); isCall {
				if cal := calleeOf(call); cal != nil && origin(cal).String() == "slices.Clone" && strip(call.Common().Args[0]) == ssa.Value(ap) {
					ok = true
				}
				if isBuiltinCall(call, "append") && len(call.Common().Args) == 2 && strip(call.Common().Args[1]) == ssa.Value(ap) {
					if base := strip(call.Common().Args[0]); isNilConst(base) {
						ok = true
					} else if _, isMk := base.(*ssa.MakeSlice); isMk {
						ok = true
					}
				}
			}
			r.Check(ok, "R15.3", "WriteThru:list", p.Pos(instrPos(cs)), "the printer receives the record's attribute list (itself or its clone)",
				"the list WriteThru hands to the printer is "+m.valDesc(v)+", not the record's own list or a plain copy of it: attributes are added (or dropped) between the log/slog record and the printed record")
		}
	}
	if n == 0 {
		r.Unk("R15.3", "WriteThru:list", p.FuncPos(wt), "WriteThru hands no attribute list to the printer")
	}
}

// c15HandlerModes (R15.2): the format of a handler follows its options for every combination of JSON and NoColor.
// NewSlogHandler is walked for each of the four combinations (other conditions explored both ways); the mode setter
// calls met on a path are applied to an unknown starting state with the setters' documented effects
// (SetColorMode(b): colour = b, JSON off; SetJSONMode(b): JSON = b, colour off when b); every path must end in the
// state the options name: JSON -> json, else NoColor -> logfmt, else colored.
func c15HandlerModes(c *Ctx, p *Prog, m *Model) {
	r := c.R
	fn := p.Func(p.Slog, "NewSlogHandler")
	if fn == nil {
		r.Unk("R15.2", "NewSlogHandler:modes", "-", "NewSlogHandler not found")
		return
	}
	type st struct{ json, color int } // 0 unknown, 1 false, 2 true
	var evalBool func(v ssa.Value, js, nc bool) (bool, bool)
	evalBool = func(v ssa.Value, js, nc bool) (bool, bool) {
		v = strip(v)
		if k, ok := constBool(v); ok {
			return k, true
		}
		if u, ok := v.(*ssa.UnOp); ok && u.Op == token.NOT {
			if b, ok := evalBool(u.X, js, nc); ok {
				return !b, true
			}
			return false, false
		}
		if _, ok := isFieldLoadOf(v, "HandlerOptions", "JSON"); ok {
			return js, true
		}
		if _, ok := isFieldLoadOf(v, "HandlerOptions", "NoColor"); ok {
			return nc, true
		}
		return false, false
	}
	argOf := func(cs ssa.CallInstruction) (bool, bool, bool) { // value, known, isModeCall
		return false, false, false
	}
	_ = argOf
	for _, combo := range [][2]bool{{false, false}, {false, true}, {true, false}, {true, true}} {
		js, nc := combo[0], combo[1]
		want := st{1, 2}
		if js {
			want = st{2, 1}
		} else if nc {
			want = st{1, 1}
		}
		var bad []string
		nPaths := 0
		var walk func(b *ssa.BasicBlock, s st, seen map[*ssa.BasicBlock]int)
		walk = func(b *ssa.BasicBlock, s st, seen map[*ssa.BasicBlock]int) {
			if seen[b] > 1 || nPaths > 256 {
				return
			}
			seen[b]++
			defer func() { seen[b]-- }()
			for _, in := range b.Instrs {
				cs, ok := in.(ssa.CallInstruction)
				if !ok {
					continue
				}
				name := invokeName(cs)
				if cal := calleeOf(cs); cal != nil {
					name = nm(cal)
				}
				if name != "SetColorMode" && name != "SetJSONMode" {
					continue
				}
				args := cs.Common().Args
				val, known := true, true // no argument means true
				if len(args) > 0 {
					last := args[len(args)-1]
					if sl, isSl := last.(*ssa.Slice); isSl {
						if al, isAl := sl.X.(*ssa.Alloc); isAl {
							for _, ref := range *al.Referrers() {
								if ia, isIA := ref.(*ssa.IndexAddr); isIA {
									for _, r2 := range *ia.Referrers() {
										if stx, isSt := r2.(*ssa.Store); isSt {
											val, known = evalBool(stx.Val, js, nc)
										}
									}
								}
							}
						}
					} else if !isNilConst(last) {
						known = false
					}
				}
				if !known {
					s = st{0, 0}
					continue
				}
				tf := func(b bool) int {
					if b {
						return 2
					}
					return 1
				}
				if name == "SetColorMode" {
					s = st{1, tf(val)}
				} else {
					s.json = tf(val)
					if val {
						s.color = 1
					}
				}
			}
			switch t := b.Instrs[len(b.Instrs)-1].(type) {
			case *ssa.Return:
				nPaths++
				if s != want {
					bad = append(bad, fmt.Sprintf("json=%d colour=%d (0 unknown, 1 off, 2 on) at %s", s.json, s.color, p.Pos(instrPos(t))))
				}
			case *ssa.If:
				if v, ok := evalBool(t.Cond, js, nc); ok {
					if v {
						walk(b.Succs[0], s, seen)
					} else {
						walk(b.Succs[1], s, seen)
					}
				} else {
					walk(b.Succs[0], s, seen)
					walk(b.Succs[1], s, seen)
				}
			default:
				for _, nx := range b.Succs {
					walk(nx, s, seen)
				}
			}
		}
		walk(fn.Blocks[0], st{0, 0}, map[*ssa.BasicBlock]int{})
		key := fmt.Sprintf("NewSlogHandler:modes[JSON=%v NoColor=%v]", js, nc)
		r.Check(nPaths > 0 && len(bad) == 0, "R15.2", key, p.FuncPos(fn), fmt.Sprintf("every path ends in json=%d colour=%d", want.json, want.color),
			fmt.Sprintf("with these options the handler's logger does not end in the format they name (want json=%d colour=%d, got %s): the mode setters are skipped or applied in an order in which one undoes the other, or the result depends on what the logger was set to before", want.json, want.color, strings.Join(dedupStr(bad), "; ")))
	}
}
