package main

import (
	"bufio"
	"bytes"
	"encoding/json"
	"fmt"
	"os"
	"os/exec"
	"path/filepath"
	"runtime"
	"sort"
	"strings"
	"sync"
)

// Self-test of the thorough tier: every seeded change kept for this property under
// /verif/seeded/<Cxx-k>/patch.diff is applied to an in-memory copy of the files it touches
// (go/packages overlay: /repo is not modified) and the property's rules are run on that
// variant. A seed whose patch no longer applies to the current tree is skipped with a note.
// The result is recorded in the evidence (mutants, killed, survivors); it never produces a
// VIOLATION line: a surviving seed says something about the checker, not about /repo.

type selfResult struct {
	Seed       string   `json:"seed"`
	Applied    bool     `json:"applied"`
	Killed     bool     `json:"killed"`
	Rules      []string `json:"rules,omitempty"`
	Violations int      `json:"violations"`
	Note       string   `json:"note,omitempty"`
}

func seedOverlay(patch string) (map[string][]byte, error) {
	f, err := os.Open(patch)
	if err != nil {
		return nil, err
	}
	defer f.Close()
	var files []string
	sc := bufio.NewScanner(f)
	sc.Buffer(make([]byte, 1<<20), 1<<24)
	for sc.Scan() {
		l := sc.Text()
		if strings.HasPrefix(l, "+++ b/") {
			files = append(files, strings.TrimPrefix(l, "+++ b/"))
		}
	}
	if len(files) == 0 {
		return nil, fmt.Errorf("no files in patch")
	}
	tmp, err := os.MkdirTemp("", "loggcheck-seed-")
	if err != nil {
		return nil, err
	}
	defer os.RemoveAll(tmp)
	for _, rel := range files {
		src := filepath.Join(repoDir, rel)
		b, err := os.ReadFile(src)
		if err != nil {
			b = nil // file created by the patch
		}
		dst := filepath.Join(tmp, rel)
		if err := os.MkdirAll(filepath.Dir(dst), 0o755); err != nil {
			return nil, err
		}
		if b != nil {
			if err := os.WriteFile(dst, b, 0o644); err != nil {
				return nil, err
			}
		}
	}
	cmd := exec.Command("git", "apply", "--whitespace=nowarn", patch)
	cmd.Dir = tmp
	cmd.Env = append(os.Environ(), "GIT_CEILING_DIRECTORIES="+filepath.Dir(tmp))
	if out, err := cmd.CombinedOutput(); err != nil {
		return nil, fmt.Errorf("patch does not apply to the current tree: %s", strings.TrimSpace(string(out)))
	}
	ov := map[string][]byte{}
	for _, rel := range files {
		b, err := os.ReadFile(filepath.Join(tmp, rel))
		if err != nil {
			return nil, err
		}
		ov[filepath.Join(repoDir, rel)] = b
	}
	return ov, nil
}

// runBenignTest runs checker f on each behaviour-preserving refactoring kept under /verif/benign: none may be reported.
func runBenignTest(vdir, id, tier string, f checker) []selfResult {
	dirs, _ := filepath.Glob(filepath.Join(vdir, "benign", "[RF]*-*"))
	sort.Strings(dirs)
	return runVariants(vdir, id, dirs, f)
}

// runSelfTest runs checker f on each seed of property id and returns the results.
func runSelfTest(vdir, id, tier string, f checker) []selfResult {
	dirs, _ := filepath.Glob(filepath.Join(vdir, "seeded", id+"-*"))
	sort.Strings(dirs)
	return runVariants(vdir, id, dirs, f)
}

func runVariantsSerial(vdir, id string, dirs []string, f checker) []selfResult {
	var out []selfResult
	for _, d := range dirs {
		res := selfResult{Seed: filepath.Base(d)}
		ov, err := seedOverlay(filepath.Join(d, "patch.diff"))
		if err != nil {
			res.Note = err.Error()
			out = append(out, res)
			continue
		}
		res.Applied = true
		saved := overlayForLoad
		overlayForLoad = ov
		c := &Ctx{R: NewReport(id, "quick", 0), Tier: "quick", progs: map[string]*Prog{}, Floor: map[string]int{}}
		func() {
			defer func() {
				if r := recover(); r != nil {
					c.R.cfg = ""
					c.R.Unk("PANIC", "checker-panic", "-", "the checker panicked: %v", r)
				}
			}()
			f(c)
		}()
		overlayForLoad = saved
		rules := map[string]bool{}
		for _, o := range c.R.Obls {
			if o.Verdict != OK {
				res.Violations++
				rules[o.Rule] = true
			}
		}
		for r := range rules {
			res.Rules = append(res.Rules, r)
		}
		sort.Strings(res.Rules)
		// known findings also show up as violations here: a seed is killed only by something beyond them
		known, _ := loadKnown(filepath.Join(vdir, "known-findings.json"))
		extra := 0
		for _, o := range c.R.Obls {
			if o.Verdict == OK {
				continue
			}
			isKnown := false
			for _, k := range known.Findings {
				if k.Property == id && k.Rule == o.Rule && k.Construct == o.Construct {
					isKnown = true
				}
			}
			if !isKnown {
				extra++
			}
		}
		res.Killed = extra > 0
		out = append(out, res)
	}
	return out
}

// runVariants evaluates the variants in child processes of this same binary (hidden flag -variant), a few at a
// time: the rule code keeps per-run state in package-level variables, so variants are not run concurrently in one
// process; a child loads the tree with one overlay, checks one property and prints its selfResult as JSON.
// A child that cannot be started or does not answer is evaluated in this process instead.
func runVariants(vdir, id string, dirs []string, f checker) []selfResult {
	workers := runtime.NumCPU() / 3
	if workers < 1 {
		workers = 1
	}
	if workers > 6 {
		workers = 6
	}
	if os.Getenv("LOGGCHECK_SERIAL") != "" || len(dirs) < 2 {
		return runVariantsSerial(vdir, id, dirs, f)
	}
	self, err := os.Executable()
	if err != nil {
		return runVariantsSerial(vdir, id, dirs, f)
	}
	out := make([]selfResult, len(dirs))
	done := make([]bool, len(dirs))
	var wg sync.WaitGroup
	sem := make(chan struct{}, workers)
	for i, d := range dirs {
		wg.Add(1)
		go func(i int, d string) {
			defer wg.Done()
			sem <- struct{}{}
			defer func() { <-sem }()
			cmd := exec.Command(self, "-property", id, "-variant", d, "-verif", vdir, "-repo", repoDir)
			cmd.Env = append(os.Environ(), "LOGGCHECK_SERIAL=1")
			b, err := cmd.Output()
			if err != nil && len(b) == 0 {
				return
			}
			var res selfResult
			idx := bytes.LastIndex(b, []byte("VARIANT-RESULT "))
			if idx < 0 {
				return
			}
			line := b[idx+len("VARIANT-RESULT "):]
			if nl := bytes.IndexByte(line, '\n'); nl >= 0 {
				line = line[:nl]
			}
			if json.Unmarshal(line, &res) == nil {
				out[i], done[i] = res, true
			}
		}(i, d)
	}
	wg.Wait()
	for i, d := range dirs {
		if !done[i] {
			r := runVariantsSerial(vdir, id, []string{d}, f)
			out[i] = r[0]
		}
	}
	return out
}
