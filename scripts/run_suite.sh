#!/bin/bash
# Runs the pinned test suite of /repo (guard off) and prints pass/fail counts.
# Usage: run_suite.sh [repo_dir]
R=${1:-/repo}
export GOPROXY=off GOSUMDB=off GOTOOLCHAIN=local
out=$(mktemp)
for m in . ./tests; do
  (cd $R/$m && go test -json -vet=off -count=1 -timeout 25m ./... ) >> $out 2>&1
done
python3 - "$out" <<'PY'
import json,sys
p=f=0; failed=[]
for l in open(sys.argv[1]):
    try: e=json.loads(l)
    except Exception: continue
    if e.get('Test') and e.get('Action') in('pass','fail'):
        if e['Action']=='pass': p+=1
        else: f+=1; failed.append(e['Package']+'::'+e['Test'])
print('passed',p,'failed',f)
for x in failed: print('FAIL',x)
sys.exit(1 if f or p<155 else 0)
PY
rc=$?
rm -f $out
exit $rc
