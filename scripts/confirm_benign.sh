#!/bin/bash
# usage: confirm_benign.sh <srcdir> <Rj> <k>   - applies <srcdir>/patch<k>.diff to a scratch worktree of /repo's HEAD, builds
# (default, verbose and hint tags), runs the pinned suite; on 155/0 stores it as /verif/benign/<Rj>-<k>/ (patch.diff, notes.md).
SRC=$1; R=$2; K=$3; WT=/tmp/cb-$R-$K
export GOPROXY=off GOSUMDB=off GOTOOLCHAIN=local
ok=0; for try in 1 2 3 4 5 6; do git -C /repo worktree add --detach -q $WT HEAD 2>/dev/null && { ok=1; break; }; sleep 1; done
[ $ok = 1 ] || { echo "$R-$K worktree-failed"; exit 1; }
trap "git -C /repo worktree remove --force $WT" EXIT
cd $WT
git apply $SRC/patch$K.diff || { echo "$R-$K APPLY-FAIL"; exit 1; }
go build ./... || { echo "$R-$K BUILD-FAIL"; exit 1; }
(cd slog && go build -tags verbose ./... && go build -tags hint ./...) || { echo "$R-$K TAG-BUILD-FAIL"; exit 1; }
suite=$(/verif/scripts/run_suite.sh $WT | head -1)
echo "$R-$K suite=[$suite]"
np=$(echo "$suite" | awk '{print $2}'); nf=$(echo "$suite" | awk '{print $4}')
if [ "${nf:-1}" = "0" ] && [ "${np:-0}" -ge 155 ]; then
  D=/verif/benign/$R-$K; mkdir -p $D; cp $SRC/patch$K.diff $D/patch.diff; cp $SRC/notes$K.md $D/notes.md
fi
