#!/usr/bin/env python3
import json, jsonschema, glob, sys
m=json.load(open('/verif/MANIFEST.json')); s=json.load(open('/root/.vp/MANIFEST.schema.json')); jsonschema.validate(m,s); print("manifest valid; checks:",len(m['checks']),"n/a:",len(m.get('not_applicable',[])))
s=json.load(open('/root/.vp/EVIDENCE.schema.json'))
for f in sorted(glob.glob('/verif/evidence/C*.json')):
    e=json.load(open(f)); jsonschema.validate(e,s); c=e['coverage']
    print(f.split('/')[-1], e['tier'], 'obl',c.get('obligations'),'ok',c.get('discharged'),'nontrivial',c.get('distinct_nontrivial'),'viol',e.get('violations'), 'wall',round(e['wall_s'],1))
