#!/bin/bash
# usage: confirm_seed.sh <prop> <k> [srcbase=/tmp/wt-out] [destk=k]  (reads <srcbase>/<prop>/patch<k>.diff, demo<k>_test.go, notes<k>.md)
# Confirms in a scratch worktree that the patch compiles, keeps the suite green, and that the
# demo fails with it and passes without it; then stores it under /verif/seeded/<prop>-<k>/.
P=$1; K=$2; BASE=${3:-/tmp/wt-out}; DK=${4:-$K}; SRC=$BASE/$P; WT=/tmp/sv-$P-$DK
export GOPROXY=off GOSUMDB=off GOTOOLCHAIN=local
git -C /repo worktree add --detach $WT HEAD -q || exit 2
cleanup() { git -C /repo worktree remove --force $WT; }
trap cleanup EXIT
cd $WT
demo=$SRC/demo${K}_test.go
pkgline=$(grep -m1 '^package ' $demo | awk '{print $2}')
dir=slog
if [ "$pkgline" = "times" ]; then dir=slog/internal/times; fi
if [ "$pkgline" = "strings" ]; then dir=slog/internal/strings; fi
race=""
[ -z "$NORACE" ] && grep -qi -- "-race" $SRC/notes$K.md 2>/dev/null && race="-race"
git apply $SRC/patch$K.diff || { echo "APPLY-FAIL"; exit 1; }
go build ./... || { echo "BUILD-FAIL"; exit 1; }
suite=$(/verif/scripts/run_suite.sh $WT | head -1)
cp $demo $dir/demo${K}_test.go
(cd $WT && go test -count=1 $race -run "TestDemo${K}\$" ./$dir/ > /tmp/sv-$P-$DK.with.log 2>&1); with=$?
git checkout -q -- . 
(cd $WT && go test -count=1 $race -run "TestDemo${K}\$" ./$dir/ > /tmp/sv-$P-$DK.without.log 2>&1); without=$?
rm -f $dir/demo${K}_test.go
echo "$P-$DK suite=[$suite] demo-with-patch-exit=$with demo-without-exit=$without race=[$race] dir=$dir"
if [ "$suite" = "passed 155 failed 0" ] && [ $with -ne 0 ] && [ $without -eq 0 ]; then
  D=/verif/seeded/$P-$DK; mkdir -p $D
  cp $SRC/patch$K.diff $D/patch.diff; cp $demo $D/demo_test.go; cp $SRC/notes$K.md $D/notes.md
  python3 - "$P" "$K" "$dir" "$race" "$BASE" "$DK" <<'PY'
import json,sys,re
p,k,d,race,base,dk=sys.argv[1:7]
notes=open(f'{base}/{p}/notes{k}.md').read()
meta={"property":p,"id":f"{p}-{dk}","source":"independent sub-agent given only the property text and a scratch worktree",
 "needs_to_manifest": notes.strip().split('\n')[0:12],
 "demo":{"file":"demo_test.go","copy_into":d,"run":f"go test -count=1 {race} -run 'TestDemo{k}$' ./{d}/".replace('  ',' ')},
 "confirmed":{"applies_to":"HEAD of /repo at confirmation time","builds":True,"suite":"155 passed, 0 failed with the patch","demo_with_patch":"FAIL","demo_without_patch":"PASS","how":"scripts/confirm_seed.sh in a scratch worktree, removed afterwards"},
 "detected_by":[]}
json.dump(meta,open(f'/verif/seeded/{p}-{dk}/meta.json','w'),indent=1)
PY
  echo CONFIRMED
else
  echo NOT-CONFIRMED; tail -5 /tmp/sv-$P-$DK.with.log; tail -5 /tmp/sv-$P-$DK.without.log
fi
