#!/bin/bash
# usage: reconfirm_seed.sh <id>   - re-confirms a stored seed (/verif/seeded/<id>/) against /repo's current HEAD in a scratch
# worktree: applies, builds, suite 155/0, demo fails with the patch and passes without. Prints RECONFIRMED or NOT.
ID=$1; D=/verif/seeded/$ID; WT=/tmp/rc-$ID
export GOPROXY=off GOSUMDB=off GOTOOLCHAIN=local GOWORK=off
git -C /repo worktree add --detach -q $WT HEAD || exit 2
trap "git -C /repo worktree remove --force $WT" EXIT
cd $WT
dir=$(python3 -c "import json;print(json.load(open('$D/meta.json'))['demo']['copy_into'])")
run=$(python3 -c "import json;print(json.load(open('$D/meta.json'))['demo']['run'])")
git apply $D/patch.diff || { echo "$ID APPLY-FAIL"; exit 1; }
go build ./... || { echo "$ID BUILD-FAIL"; exit 1; }
suite=$(/verif/scripts/run_suite.sh $WT | head -1)
cp $D/demo_test.go $dir/zz_demo_test.go
eval "$run" > /tmp/rc-$ID.with.log 2>&1; with=$?
git checkout -q -- .
eval "$run" > /tmp/rc-$ID.without.log 2>&1; without=$?
rm -f $dir/zz_demo_test.go
echo "$ID suite=[$suite] with=$with without=$without"
if [ "$suite" = "passed 155 failed 0" ] && [ $with -ne 0 ] && [ $without -eq 0 ]; then echo RECONFIRMED; else echo NOT-RECONFIRMED; fi
