#!/bin/bash
# usage: try_patch.sh <patch.diff> <prop[,prop...]> [tier]
# Applies a patch to /repo, runs the checks, reverts. Prints the check output.
P=$1; PROPS=$2; TIER=${3:-quick}
cd /repo || exit 2
if [ -n "$(git status --porcelain)" ]; then echo "/repo not clean"; exit 2; fi
mkdir -p /tmp/tp-verif && cp /verif/properties.jsonl /verif/known-findings.json /verif/anchors.json /tmp/tp-verif/
git apply "$P" || { echo "patch does not apply"; exit 2; }
/verif/bin/loggcheck -property "$PROPS" -tier $TIER -verif /tmp/tp-verif 2>&1 | grep -v "^WARNING conda"
rc=${PIPESTATUS[0]}
git checkout -- . ; git clean -fdq
echo "exit=$rc"
