#!/bin/bash
# worker of run_seeds.sh / run_benign.sh: one patch directory, one scratch worktree of /repo, one scratch verif dir
D=$1; SCR=$2; BIN=$3
id=$(basename $D); WT=/tmp/mw-$id; V=$SCR/v-$id
mkdir -p $V; cp /verif/properties.jsonl /verif/known-findings.json /verif/anchors.json $V/
ok=0; for try in 1 2 3 4 5 6; do git -C /repo worktree add --detach -q $WT HEAD 2>/dev/null && { ok=1; break; }; sleep 1; done
[ $ok = 1 ] || { echo "$id|worktree-failed||" > $SCR/res-$id.txt; exit 0; }
if ! git -C $WT apply $D/patch.diff 2>/dev/null; then
  echo "$id|patch does not apply||" > $SCR/res-$id.txt
else
  $BIN -property all -tier quick -verif $V -repo $WT > $SCR/out-$id.txt 2>&1
  props=$(grep '^VIOLATION' $SCR/out-$id.txt | sed 's/.*property=\([A-Z0-9]*\).*/\1/' | sort -u | tr '\n' ' ')
  rules=$(grep -o '\[R[0-9]*\.[0-9]*\]' $SCR/out-$id.txt | sort -u | tr -d '[]' | tr '\n' ' ')
  echo "$id|ran|$props|$rules" > $SCR/res-$id.txt
fi
git -C /repo worktree remove --force $WT
rm -rf $V
