#!/usr/bin/env python3
"""Generates /verif/MANIFEST.json from the table below (single source of truth).
A property appears under `checks` once its checker is registered in the table with
implemented=True; otherwise it is listed under not_applicable with the reason."""
import json, os, sys

V = os.path.dirname(os.path.dirname(os.path.abspath(__file__)))
ENV = "GOFLAGS=-mod=mod GOPROXY=off GOSUMDB=off GOTOOLCHAIN=local GOWORK=off"

# id -> dict(implemented, level, text, note, technique, design)
P = {}

def prop(pid, implemented, text, note, technique, level="other", reason=""):
    P[pid] = dict(implemented=implemented, level=level, text=text, note=note, technique=technique, reason=reason)

exec(open(os.path.join(V, "scripts", "manifest_table.py")).read())

# clauses decided by rules added after the second round of seeded changes (DESIGN.md 8.6)
EXTRA = {
 "C02": " The routing decision function (R03.1/R03.2, shared with C03) is also an obligation here: the destination selected is never an empty per-level list while the documented routing names another. Gate dominance (R01.1) and the fan-out loop rule (R13.1) are obligations here too: not admitted means nothing written, every selected destination is written. A nested record is issued by the sink only on the destination's own Write error (R02.7). Every index or re-slice at a constant position on the print path is within the length established by the tests that dominate it (R02.8; this rule found the empty-stack-trace panic repaired by c0ef9bd). No method is called on a possibly nil context (R02.9) and no function stores into its caller's argument list (R10.7). The operation frame table of the writer sets (R03.3) is an obligation here too. Reflect accessors that panic on the zero Value need a validity or nil test on the way (R02.5).",
 "C04": " Value fidelity (R04.8): every float is rendered with precision -1 and the bit size of its own static type, every integer in base 10 and every time VALUE with a constant nanosecond layout with zone, the parameters being resolved to constants over all call chains. The JSON escaper loses no byte: every advance of its pending-run marker is dominated by a write of the pending run (R04.8). Conversions between a number and strconv keep every value of its type (R04.8). Member grammar: separator, key, value on every feasible path of the member loop (R04.9). The message reaches the encoder unchanged (R05.10). R04.5 is also evaluated with the testing/debug branches included; the text written under the message key is the message field itself (R05.10). Array grammar: every element writer called between the separators of a list writer writes on every mode-feasible path (R04.10). Marshaller interfaces are consulted only after the built-in arms missed (R04.11); pair grammar of the fixed members (R05.11); pool discipline (R02.6).",
 "C05": " Value fidelity as R04.8 in logfmt mode (R05.8); the de-duplication of a member list merges two attributes only when their Key() strings are equal (R05.9). The message is handed on as given from the verbs to the encoder's message field (R05.10); integer conversions on the way to strconv lose nothing (R05.8). The one-byte escape of the quoter is entered only on width 1 and RuneError (R05.3); the text written under the message key is the message field itself (R05.10). Pair grammar of the fixed members: separators and pairs alternate over every feasible path of the record printer and the member printers, interprocedurally (R05.11); pool discipline (R02.6).",
 "C06": " The alphabet of the Go-syntax quoter behind every quoted value (R05.3, shared with C05) is also an obligation here. No package-level state is written on the print path (R09.2) and tag widths (R17.6) are obligations here too; padding is never cut from a fixed-size constant (R06.3). The sort rules of C07 (stable, key-only, ascending, comparator a consistent three-way order also for nil placeholders: R07.3/R07.4) and message identity (R05.10) are obligations here too. The tag width setter stores its parameter for every width 1..5 (R06.3). The payload handed to the destination is the finished record, Bytes() right after End(true) (R02.3). Timestamp, severity and message are written on every path of their printers (R06.3); no bufio.Scanner on the print path (R06.3); pool discipline (R02.6).",
 "C07": " The name a context value is stored under is a term over the very key it was looked up with (R07.5 pairing). A logger's attribute list is a fresh slice or an append to its own (R10.1 shared). The comparator is a consistent three-way order over {nil, nil}, {nil, attribute} and the key relation (R07.3 table). Ownership of written memory (R08.1/R08.2) and nil-context safety (R02.9) are obligations here too. The key printed is the element's own Key(), dot-prefixed at most (R07.4). The list that is sorted, de-duplicated and printed is the collected list itself (R07.4); in the context lookup loop only the key's kind and the presence of its value decide an append (R07.5).",
 "C08": " In each output mode no field of the pooled encoder is read before the current call wrote it (R08.5 = engine E10), and the pool discipline R02.6 is an obligation here: a payload is the record of exactly one call. A new formatting context starts on memory of its own (R08.3). No mutating method of the attribute interface is called on an attribute of a record: the objects are the logger's (R08.1). No slice of a package-level array is handed to a callee that fills it on the print path (R08.1). Destination wrappers keep no per-record state between SetLevel and Write (R08.6). No atomic write to a field of a shared object on the print path (R08.1); the attribute slice is put back at most once per path and the pooled context is not handed to objects the logger keeps (R08.3).",
 "C09": " The pool discipline (R02.6, shared with C02) is also an obligation here: neither the pooled context nor bytes taken from it are used after it went back to the pool. Ownership of written and in-place mutated memory (R08.1/R08.2) is an obligation here too. No mutating method of the attribute interface is called on an attribute of a record (R08.1). No slice of a package-level array is handed to a callee that fills it on the print path (R08.1). Capacity independence: no branch outside the buffer API depends on the room left in the pooled buffer (R09.4).",
 "C10": " A With... method's child is anonymous or is looked up under a name whose term mentions every parameter of the method (R10.4). No function of the package stores into an element of its variadic or []any parameter (R10.7). Package-level functions delegate to their namesake on the default logger (R10.8); inside newentry's loop every element reaches the option test except over the name edge (R10.3); the format transition table (R11.1) is an obligation here too. A new writer set starts from fresh lists (R03.2).",
 "C11": " WithJSONMode/WithColorMode create a child of their own: anonymous, or named by a term over their arguments (R11.5); the record order per mode (R11.3) replaces the test for one particular branch. Options are applied by direct calls in the order given (R11.4). In JSON and logfmt mode, the testing/debug dump included, no site that writes a terminal escape sequence (own constants or the dependency's colour helpers) is reachable; the same query finds them in colored mode (R11.7). Nothing on the print path keeps rendered text in package-level objects (R08.1).",
 "C12": " No static route from a native entry point to the record printer avoids the function holding the termination step (R12.6). The testing-mode atom is is.InTesting() itself and never reassigned (R12.7). No method is called on a possibly nil context on the print path (R02.9): a nil context never turns a call into a runtime panic. The terminating function and its helpers close no destination and write no writer-set state (R12.8).",
 "C14": " Chains continue above an exported entry point to which another entry point forwards a non-constant message (R14.1); source() extracts the frame of the record's own pc on every path (R14.4); every emission that carries a captured pc carries nothing else (R14.5). The capturing Handle is entered by log/slog only: no handler of the package forwards records to a Handler's Handle (R14.2). The function name's post-processing keeps the end of the name (R14.6). The package-level SetSkip/WithSkip delegate to their namesakes (R10.8). No package-level state is written on the print path (R09.2): the caller reported is that of this call. Whether the caller is printed depends on flags, mode and the blank-line shortcut only (R14.5).",
 "C15": " Enabled's decision function depends on nothing but membership of the level in the table, and for a table level the answer is the logger's own on every path (R15.2). A native logger gets every record by exactly one WriteThru carrying the record's own time; which route is taken depends only on the logger's capabilities (R15.3). The value handed on by each kind arm is the accessor's result without a range-losing conversion (R15.3). Enabled does not refuse a level outside the table (R15.2). The writer given to log.New is the bridge itself (R15.5); nothing on the adapter's path writes memory that outlives the call (R08.1).",
 "C16": " WriteThru, print and PrintCtx.set hand on / store the very time value they are given, and the timestamp printer prints the stored instant (R16.5). SetUTCMode is only called as a pass-through of the caller's own variadic choice (R16.6); a function holding the record's instant does not emit through a route stamped with time.Now() (R16.5). Timestamp printer writes on every path in every mode (R16.3); SetTimeFormat never stores the empty layout (R16.4).",
 "C18": " AddKnownPathMapping stores the mapping given on every path and RemoveKnownPathMapping deletes exactly the key given (R18.6). Whether a table entry applies never depends on its replacement text (R18.2) and the home rewrite does not depend on the regexp flag (R18.4); the rules cover checkpath and the private helpers it is cut into. The regexp rule list is appended to, cut or replaced as a whole, never overwritten at a remembered position (R18.6). A frame's file name is used only as the argument of the hardening function (R18.7).",
 "C01": " The registry writers (R17.3/R17.4: a refused registration leaves the tables untouched; a successful one records the treated-as level for every level value including zero) are obligations here too. The diagnostic the sink issues after a failed Write re-enters through a gated entry point (R01.1).",
 "C13": " The package's own writer wrappers forward Write once, without loop or retry (R13.5). On the failure path no index or re-slice at a variable position lacks a dominating bound by the length of the same sequence (R13.3). No == between interface values that can hold an uncomparable repository type on the failure path (R13.3). The diagnostic is issued on the sink's own receiver through a gated entry point (R13.2, R01.1); one emission per path (R02.1); one Put per path (R08.3).",
 "C17": " A registration stores only the caller's own tags, each under its own width index (R17.6). ParseLevel consults the name table first: any other successful result is produced only after the table missed (R17.2). UnmarshalText parses the text as it is (R17.2). Every further name entered into the parse table was tested free (R17.3); no per-level text is cached in package-level state on the print path (R09.2). Each setting of the registration pack is written by one option constructor only (R17.5).",
 "C20": " The write budget is decided with a symbolic buffer length, so it holds through any split of the formatter into helpers taking a sub-slice. No conversion to a narrower integer loses bits of the value being formatted; loops with a constant trip count are unrolled and local tables tracked cell by cell. No byte is stored at an index definitely below the returned start index (R20.1).",
 "C03": " Writer operations given as New(...) options are all applied: every element of newentry's argument list is offered to the option test (R10.3). An add operation stores its list at most once per path; the identity test of the remove family cannot panic for uncomparable writers (R03.3; three known findings: it does, for the package's own LWs). Every Write in the sink and its failure helpers is on the destination findWriter selected (R03.2).",
}
for k, v in EXTRA.items():
    if k in P:
        P[k]["text"] += v

# round 9 (DESIGN.md 8.6)
EXTRA9 = {
 "C02": " A fixed-size table indexed at a computed position is within its length wherever the code tests the position (R02.8). The admission decision table (R01.3) and the lock discipline (R08.7) are obligations here too.",
 "C04": " The write side of the formatting buffer is isomorphic to bytes.Buffer (R19.1), derived handlers own their field list (R15.4), the blank-line guard (R02.3), one element printer per list (R04.8) and the full traversal of the member list (R04.12) are obligations here.",
 "C05": " R19.1 (write side), R15.4, R02.3 (blank guard), one element printer per list (R05.8) and the full traversal of the member list (R05.12) are obligations here.",
 "C06": " Tested search results are split at the absent/found boundary (R06.5), the member loop has its natural exit only (R06.6) and R19.1 (write side) is an obligation here.",
 "C07": " The loops over the registered context keys and over the member list have their natural exit only (R07.6).",
 "C08": " Lock discipline (R08.7): each mutex acquired is released on every path and no call made while it is held reaches an acquisition of the same mutex (none acquired on the pinned default build). The fan-out (R13.1) and R09.2 are obligations here too.",
 "C11": " The blank-line guard (R02.3) is an obligation here too.",
 "C13": " Lock discipline as R08.7 (R13.6).",
 "C14": " Same-named parameters handed on to a package function go to their namesakes (R14.7).",
 "C15": " Every return of the record conversion is dominated by the append of the handler's fields and by the walk; a resolved LogValuer goes through the kind switch again (R15.3). R01.3 is an obligation here too.",
 "C16": " Each table layout is tokenised: no 12-hour hour without AM/PM, no repeated or missing element (R16.2). R10.2 is an obligation here too.",
 "C17": " The loop recording the custom tags covers every width of the table (R17.4).",
 "C18": " Both mapping loops have their natural exit only (R18.8); the flag word's constants keep Lprivacypath and the package never clears it itself (R18.9); no list-edit result is dropped (R18.10); search results are split at -1 (R18.11).",
 "C20": " The innermost non-zero test around a digit writer tests the value it writes (R20.2).",
}
for k, v in EXTRA9.items():
    if k in P:
        P[k]["text"] += v

# round 10 (DESIGN.md 8.6)
EXTRA10 = {
 "C01": " The routing decision function (R03.1) is an obligation here too: an admitted record is not swallowed by an emptied per-level list.",
 "C02": " The severity handed to the sink is the record's own (R02.3).",
 "C03": " The remove family compares the member itself with the argument outside the wrapper test (R03.5).",
 "C04": " No dotted-key site is feasible in JSON mode (R04.6); gate and emission levels agree (R01.1/R01.2/R01.5) and the log/slog conversion keeps key and value per kind (R15.3) are obligations here.",
 "C05": " The two-digit byte escape is written only for runes <= 0x7f on every way into its block (R05.3); the pooled context comes from the constructor (R05.9); R01.1/R01.2/R01.5 and R15.3 are obligations here.",
 "C06": " A loop over the lines of a split text visits every line (R06.4); the SGR automaton is also run with the testing/debug-only branches (R06.1).",
 "C07": " R10.2 (With-forms configure the child, WithContextKeys included) and the pooled-context constructor rule (R07.4) are obligations here.",
 "C08": " What is put back into the attribute pool is what was taken from it (R08.3); R13.2 is an obligation here too.",
 "C10": " The asserted name reaches the registry key only where it was tested non-empty (R10.9); every Opt closure configures its own parameter (R10.10).",
 "C11": " R10.9 and the JSON raw-emission classes (R04.2: MarshalText output is not raw JSON) are obligations here.",
 "C12": " R03.3 (each setter stores into the list it names) is an obligation here too.",
 "C13": " Fixed-size tables on the failure path are indexed below their length (R13.3); R02.3 is an obligation here too.",
 "C14": " R18.2 (file relative to the working directory) and R10.3 (a new logger starts with skip 0) are obligations here.",
 "C15": " The receiver's fields precede the given ones (R15.4); each kind arm reads with its own accessor (R15.3); R02.3 and R16.3 are obligations here.",
 "C16": " R10.3 (options applied at every position) is an obligation here too.",
 "C17": " UnmarshalText reports success only after it stored the parsed level (R17.2).",
 "C18": " SafetyFiles never returns its argument list (R18.1).",
}
for k, v in EXTRA10.items():
    if k in P:
        P[k]["text"] += v

# round 11 (DESIGN.md 8.6)
EXTRA11 = {
 "C01": " Every dispatcher on the dynamic type of the default logger has an emitting arm for *Entry and *logimp (R01.8); the options of a registration work on a local of that call (R17.5).",
 "C02": " Destinations are fetched by the sink only (R02.2); no call through a nil writer set (R02.5); R08.1/R09.2 are obligations here.",
 "C03": " Add/set operations depend only on the writer given and the receiver's own fields (R03.3); no call through a nil writer set (R03.4); R10.1/R10.3/R08.1 are obligations here.",
 "C04": " The encoder only appends (R04.10); a float printer never compares the value with 0 to decide a sign (R04.8); AppendFormat stands between quotes (R04.2); R11.1 and R07.3 are obligations here.",
 "C05": " As C04 for logfmt (R05.11, R05.8, R05.2); the prefix pushed for a value is the dotted key on every feasible way (R05.5); R11.1 and R07.3 are obligations here.",
 "C06": " R05.1/R05.5 in colored mode, R11.1 and the registration rules of R17.6 are obligations here.",
 "C07": " R09.1 (engine E10) is an obligation here; attribute lists are copied whole (R07.4).",
 "C08": " R03.1 and R10.1/R10.3 are obligations here.",
 "C11": " AppendFormat stands between quotes in JSON and logfmt mode (R04.2); the pair grammar R05.11 is an obligation here.",
 "C12": " R01.8 and R03.1 are obligations here; AddFlags/RemoveFlags apply every flag given (R12.9).",
 "C13": " No call through a nil writer set on the failure path (R13.3).",
 "C14": " No dispatcher of the package-level verbs invokes an entry point through the logger interfaces (R14.1); R10.1 is an obligation here.",
 "C15": " Attribute lists are copied whole (R15.3); R03.1 and R09.1 are obligations here.",
 "C16": " R11.3 (setentry copies zone and layout from the emitting logger) and R10.4 (With-forms return their own child) are obligations here.",
 "C17": " Nothing behind ParseLevel / the (un)marshallers / String keeps state (R17.2); the options of a registration work on a local of that call (R17.5).",
 "C18": " Prefix tests work on the path as given, not on a normalised one (R18.2).",
 "C20": " The sign step dominates every return of the formatter (R20.2).",
}
for k, v in EXTRA11.items():
    if k in P:
        P[k]["text"] += v

# round 12 (DESIGN.md 8.6)
EXTRA12 = {
 "C02": " R10.1/R10.3 (own writer lists) and R05.10 (message identity) are obligations here.",
 "C04": " Encoder counters are balanced on every path (R04.7); R02.8, R09.2 and R05.9 are obligations here.",
 "C05": " Encoder counters are balanced on every path (R05.7); R02.8 and R09.2 are obligations here.",
 "C06": " R02.2/R13.1/R13.5 (every destination gets the record as formatted), R16.2 and R05.9 are obligations here.",
 "C07": " R05.9 (de-duplication by key equality only) is an obligation here.",
 "C09": " Encoder counters are balanced on every path (R09.1).",
 "C10": " Lookup by name is by equality only (R10.5).",
 "C13": " The failure region writes to no process-level device (R13.2).",
 "C14": " R02.1/R02.3 (one emission, on the regular path that runs the caller printer) are obligations here.",
 "C15": " WriteThru hands the printer the record's own list or its plain copy (R15.3).",
 "C16": " SetTimeFormat tests a candidate layout for emptiness only (R16.4).",
 "C17": " A value in use is refused: no success return on the hit edge of the value test (R17.3).",
 "C20": " Package-level tables of the duration helpers are indexed inside their bounds, non-negativity included (R20.1).",
}
for k, v in EXTRA12.items():
    if k in P:
        P[k]["text"] += v

# round 13 (DESIGN.md 8.6)
EXTRA13 = {
 "C01": " The debug switch is read from states.Env() at decision time (R01.7); R10.3 is an obligation here.",
 "C02": " Scratch arrays re-sliced at a computed position stay within their length (R02.8); a lookup hit in newChildLogger makes no call (R10.4).",
 "C03": " R17.5 and the single-writer rule for the record's severity (R03.2) are obligations here.",
 "C04": " R16.2 and the callers of the buffer's growth primitives (R19.1) are obligations here.",
 "C05": " R16.2 is an obligation here.",
 "C06": " The padder's guards do not depend on the whole message; the record's severity is stored once (R06.3).",
 "C08": " Deriving a log/slog handler edits no attribute object (R15.4); a lookup hit makes no call (R10.4).",
 "C12": " R13.1, R01.3 and R10.3 are obligations here.",
 "C14": " The caller printer proper tests no flag (R14.5); R09.1 is an obligation here.",
 "C15": " NewSlogHandler ends in the format its options name for all four JSON x NoColor combinations (R15.2); deriving a handler edits no attribute object (R15.4).",
 "C16": " The layout stored is the argument itself (R16.4); R15.3 is an obligation here.",
 "C17": " The record's severity is stored by the session start only (R17.4).",
 "C18": " Inside the regexp loop only the entry's own Match decides (R18.2).",
}
for k, v in EXTRA13.items():
    if k in P:
        P[k]["text"] += v

# round 14 (DESIGN.md 8.6)
EXTRA14 = {
 "C02": " Error values are compared only with nil, sentinels or comparable static types on the print tree (R02.5).",
 "C03": " The package-level fallback writer set is only replaced by a freshly built set (R03.4).",
 "C04": " Every round of the attribute loop prints the member's own value (R04.12).",
 "C05": " Every round of the attribute loop prints the member's own value (R05.12); foreign marshaller tests come after error/Stringer/ToString (R05.2); R07.2 is an obligation here.",
 "C06": " Foreign marshaller tests come after error/Stringer/ToString (R06.2); R01.1 is an obligation here.",
 "C09": " R08.6 (stateless writer wrappers) is an obligation here.",
 "C10": " Nothing deletes from a logger's child registry (R10.5).",
 "C11": " R10.3, R02.2 and R13.1 are obligations here.",
 "C12": " The restore function of SaveFlagsAndMod stores the saved flag word only (R12.9); R02.3 is an obligation here.",
 "C13": " R12.1 is an obligation here.",
 "C14": " R04.6 (order of the record printer's steps on every path) is an obligation here.",
 "C15": " R02.1 and R02.2 are obligations here.",
 "C17": " Registration options capture their arguments unedited (R17.5); ParseLevel fails only after the name table missed (R17.2).",
 "C18": " Whether a mapping loop of checkpath runs does not depend on the path (R18.8).",
 "C20": " Every unit suffix is followed by its integer digits on every path (R20.2).",
}
for k, v in EXTRA14.items():
    if k in P:
        P[k]["text"] += v

# round 15 (DESIGN.md 8.6)
EXTRA15 = {
 "C01": " In a gated entry point no return is reachable before the admission test was asked (R01.2); R13.1 is an obligation here.",
 "C02": " R12.1 and R17.6 are obligations here.",
 "C04": " Loops over a list parameter fetch the element of the round (R04.8); short JSON escapes are JSON's letters for their bytes (R04.1); argument pairing (R07.1) and the member separator's independence of the member (R04.9).",
 "C05": " Loops over a list parameter fetch the element of the round (R05.8); argument pairing (R07.1).",
 "C07": " Argument pairing in argsToAttrs (R07.1); R10.3 (an option argument is consumed) and R10.9 are obligations here.",
 "C08": " R02.7 and R03.3 (operation tables of the writer set) are obligations here.",
 "C09": " Source.Extract stores each of its fields on every path (R09.1).",
 "C10": " The search loop of findSublogger is left early only when something was found (R10.5); an option argument of newentry is consumed (R10.3).",
 "C11": " R04.9 (member separator independent of the member) is an obligation here.",
 "C12": " No swallowing deferred recover between the entry points and the terminating function (R12.1); the tag-width setter stores no width outside the tag tables (R06.3).",
 "C13": " The fan-out Write and the sink do not call themselves (R13.1); a pointer only errors.As sets is dereferenced on its success edge only (R13.3).",
 "C20": " The zero duration reaches a digit writer in both styles, decided by walking the formatter with d = 0 (R20.1).",
 "C14": " A prefix tested with HasPrefix is cut at its own length (R14.6); package-level forwarders pass their parameters without arithmetic (R14.3).",
 "C15": " Every round of WithAttrs converts its attribute (R15.4); R05.10, R05.5 and R05.1 are obligations here.",
 "C16": " Constant layouts that can reach the layout field in SetTimeFormat have nanosecond precision and a zone (R16.4); R02.3 is an obligation here.",
 "C17": " A tag-table entry is returned only on the hit edge of its lookup (R17.6).",
 "C18": " The regexp list is rewritten only on the equal edge of the comparison with the argument, never emptied with clear() (R18.6); prefix cuts agree with the prefix tested (R18.2); R02.8 (index and re-slice bounds, checkpath included) is an obligation here.",
}
for k, v in EXTRA15.items():
    if k in P:
        P[k]["text"] += v

# round 16 (DESIGN.md 8.6)
EXTRA16 = {
 "C06": " The encoder's exported Add*(.., value string) helpers, which user marshallers call, quote the value on every colored-mode path (R06.7).",
 "C07": " No member of the attribute list is overwritten in place between the sort and the emission (R07.4).",
 "C12": " The interrupt flags are read after the record is written (R12.2).",
 "C16": " An element of SetTimeFormat's argument list reaches the stored layout only under a non-emptiness test of that element (R16.4); the slice AppendFormat returns is what lands in the record (R16.3).",
}
for k, v in EXTRA16.items():
    if k in P:
        P[k]["text"] += v

checks, na = [], []
ids = [json.loads(l)["id"] for l in open(os.path.join(V, "properties.jsonl"))]
for pid in ids:
    d = P.get(pid)
    if not d or not d["implemented"]:
        na.append({"property_id": pid, "reason": (d or {}).get("reason") or "no static rule set built for this property yet (see DESIGN.md section 3 for the planned rules); nothing is claimed"})
        continue
    checks.append({
        "property_id": pid,
        "quick_cmd": f"./bin/loggcheck -property {pid} -tier quick",
        "thorough_cmd": f"./bin/loggcheck -property {pid} -tier thorough",
        "evidence_file": f"/verif/evidence/{pid}.json",
        "replay_cmd_template": f"./bin/loggcheck -property {pid} -replay {{path}}",
        "engine": "loggcheck",
        "level_claimed": {"category": d["level"], "text": d["text"], "design_ref": f"DESIGN.md section 3, {pid}"},
        "level_note": d["note"],
        "technique": d["technique"],
    })

m = {
    "version": 1,
    "setup_cmd": f"cd /verif/checker && {ENV} go build -o ../bin/loggcheck . && mkdir -p /verif/evidence",
    "hooks": {
        "guard": "verif",
        "enable": "none needed: the checks read /repo's source (go/packages + go/ssa); no hook or instrumentation commit exists, so the guard is never switched on",
        "baseline_off_cmd": "for m in . ./tests; do (cd /repo/$m && go test -json -vet=off -count=1 -timeout 25m ./...); done",
        "source_commits": [],
        "add_only": True,
    },
    "engines": [
        {"name": "loggcheck", "path": "/verif/checker", "serves_properties": [c["property_id"] for c in checks],
         "kind_free_text": "purpose-built static analyser for hedzr/logg on golang.org/x/tools v0.29.0: go/packages load of the working tree per build configuration, go/ssa (InstantiateGenerics), CHA/VTA call graphs; rule engines: emission model + gate dominance (E1/E2), decision-function extraction over atoms (E3), field/global store frames with provenance (E4), frame accounting (E6), constant table agreement (E7), SSA clone agreement with the standard library (E8), interval/write-budget analysis (E9), pooled-state reset (E10), interprocedural value terms / effects / call sequences with helper inlining (E11). Unexported identifiers are resolved through /verif/anchors.json (renames are matched structurally). Nothing under /repo is executed."},
    ],
    "checks": checks,
    "not_applicable": na,
    "notes": "Technique family: static analysis only. Every claimed property is claimed for the structural necessary conditions named in level_claimed.text; the behavioural remainder that quantifies over run-time values is listed per property in DESIGN.md section 4 and in each evidence file's assumptions. Genuine defects found on the pinned tree were repaired by `fix:` commits in /repo (listed under `fixed` in /verif/known-findings.json); the rules that reported them stay armed.",
}
json.dump(m, open(os.path.join(V, "MANIFEST.json"), "w"), indent=1)
print("checks:", [c["property_id"] for c in checks])
print("not_applicable:", [n["property_id"] for n in na])
