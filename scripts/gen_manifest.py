#!/usr/bin/env python3
"""Generates /verif/MANIFEST.json from the table below (single source of truth).
A property appears under `checks` once its checker is registered in the table with
implemented=True; otherwise it is listed under not_applicable with the reason."""
import json, os, sys

V = os.path.dirname(os.path.dirname(os.path.abspath(__file__)))
ENV = "GOFLAGS=-mod=mod GOPROXY=off GOSUMDB=off GOTOOLCHAIN=local GOWORK=off"

# id -> dict(implemented, level, text, note, technique, design)
P = {}

def prop(pid, implemented, text, note, technique, level="other", reason=""):
    P[pid] = dict(implemented=implemented, level=level, text=text, note=note, technique=technique, reason=reason)

exec(open(os.path.join(V, "scripts", "manifest_table.py")).read())

checks, na = [], []
ids = [json.loads(l)["id"] for l in open(os.path.join(V, "properties.jsonl"))]
for pid in ids:
    d = P.get(pid)
    if not d or not d["implemented"]:
        na.append({"property_id": pid, "reason": (d or {}).get("reason") or "no static rule set built for this property yet (see DESIGN.md section 3 for the planned rules); nothing is claimed"})
        continue
    checks.append({
        "property_id": pid,
        "quick_cmd": f"./bin/loggcheck -property {pid} -tier quick",
        "thorough_cmd": f"./bin/loggcheck -property {pid} -tier thorough",
        "evidence_file": f"/verif/evidence/{pid}.json",
        "replay_cmd_template": f"./bin/loggcheck -property {pid} -replay {{path}}",
        "engine": "loggcheck",
        "level_claimed": {"category": d["level"], "text": d["text"], "design_ref": f"DESIGN.md section 3, {pid}"},
        "level_note": d["note"],
        "technique": d["technique"],
    })

m = {
    "version": 1,
    "setup_cmd": f"cd /verif/checker && {ENV} go build -o ../bin/loggcheck . && mkdir -p /verif/evidence",
    "hooks": {
        "guard": "verif",
        "enable": "none needed: the checks read /repo's source (go/packages + go/ssa); no hook or instrumentation commit exists, so the guard is never switched on",
        "baseline_off_cmd": "for m in . ./tests; do (cd /repo/$m && go test -json -vet=off -count=1 -timeout 25m ./...); done",
        "source_commits": [],
        "add_only": True,
    },
    "engines": [
        {"name": "loggcheck", "path": "/verif/checker", "serves_properties": [c["property_id"] for c in checks],
         "kind_free_text": "purpose-built static analyser for hedzr/logg on golang.org/x/tools v0.29.0: go/packages load of the working tree per build configuration, go/ssa (InstantiateGenerics), CHA/VTA call graphs; rule engines: emission model + gate dominance (E1/E2), decision-function extraction over atoms (E3), field/global store frames with provenance (E4), frame accounting (E6), constant table agreement (E7), SSA clone agreement with the standard library (E8), interval/write-budget analysis (E9), pooled-state reset (E10). Nothing under /repo is executed."},
    ],
    "checks": checks,
    "not_applicable": na,
    "notes": "Technique family: static analysis only. Every claimed property is claimed for the structural necessary conditions named in level_claimed.text; the behavioural remainder that quantifies over run-time values is listed per property in DESIGN.md section 4 and in each evidence file's assumptions. Genuine defects found on the pinned tree were repaired by `fix:` commits in /repo (listed under `fixed` in /verif/known-findings.json); the rules that reported them stay armed.",
}
json.dump(m, open(os.path.join(V, "MANIFEST.json"), "w"), indent=1)
print("checks:", [c["property_id"] for c in checks])
print("not_applicable:", [n["property_id"] for n in na])
