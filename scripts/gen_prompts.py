#!/usr/bin/env python3
"""Writes the prompts for a round of seeded changes (one sub-agent per property) and for a corpus of behaviour-
preserving changes. The prompts contain ONLY the property text, the list of mechanisms already tried (titles of the
stored seeds) and the sandbox instructions - nothing else from /verif.
usage: gen_prompts.py mutants <base> <round-theme>   -> <base>-out/Cxx/PROMPT.txt   (worktrees expected at <base>/Cxx)
       gen_prompts.py benign <base> <first R number> -> <base>-out/Rnn/PROMPT.txt
"""
import json, os, sys, glob, re
V = "/verif"
props = [json.loads(l) for l in open(f"{V}/properties.jsonl")]

THEMES = {
 "clauses": "(c) the breakage is REALISTIC - the kind of mistake a refactoring, an optimisation, a \"cleanup\", a dependency upgrade workaround or a feature addition could plausibly introduce - and it needs SOMETHING SPECIFIC TO MANIFEST (a particular interleaving, a fault at a particular point, a multi-step sequence, an unusual input or configuration, or two cooperating sites that each look fine alone); ordinary use must not expose it at once. FIRST split the property statement and the quantifier into their individual clauses (write the list into notes1.md under the heading 'Clauses'), mark which clauses the ALREADY KNOWN attacks hit, and aim your patches at clauses, entry points, formats, configurations or code paths that are NOT yet hit. The patches must use different mechanisms and touch different functions.",
 "everyday": "(c) the breakage is REALISTIC - the kind of mistake an everyday commit could plausibly introduce. Make patch 1 a FEATURE ADDITION or API CONVENIENCE with a flaw (a new option, a new accepted input form, a new helper used by the existing path, a new table or cache) and patch 2 a PERFORMANCE OPTIMISATION or ROBUSTNESS \"IMPROVEMENT\" with a flaw (a fast path, a reused buffer, a precomputed value, an early return, extra error handling, a changed default, a merged duplicate). Each must need SOMETHING SPECIFIC TO MANIFEST: a particular interleaving, a fault at a particular point, a multi-step sequence of operations, an unusual input or configuration, or two cooperating sites that each look fine alone. Do NOT make a change that ordinary use would expose at once. The two patches must use different mechanisms / touch different places.",
 "classic": "(c) the breakage is REALISTIC - the kind of mistake a refactoring, an optimisation, a \"cleanup\" or a feature addition could plausibly introduce - and it needs SOMETHING SPECIFIC TO MANIFEST: a particular interleaving, a fault at a particular point, a multi-step sequence of operations, an unusual input or configuration, or two cooperating sites that each look fine alone. Do NOT make a change that ordinary use would expose at once (e.g. do not just delete the main code path). Prefer changes deep in the logic (wrong condition in one branch, a missed case among siblings, state that is not reset, a changed constant, an altered order of two operations, a wrapper that adds/removes a frame, a table entry that disagrees with its sibling table, ...). The two patches must use different mechanisms / touch different places.",
 "history": "(c) the breakage is REALISTIC and manifests only after a particular HISTORY or in a particular CONFIGURATION CORNER: a sequence of configuration calls (set, then reset/remove, then set again), a second use of a recycled object, a child created before vs after a change of its parent, registration followed by removal, a rarely used build-independent option combination, an argument list at the edge of what the quantifier allows (empty, one element, nil members, very long), a value kind nobody passes in the tests. A single fresh logger used once with ordinary arguments must behave exactly as before. Make the three patches differ in the kind of history/corner they need. Keep each change small (1-10 lines) and natural-looking,",
 "small": "(c) the breakage is REALISTIC and SMALL: a one-to-five-line slip of the kind code review misses - an off-by-one, `<` for `<=`, `&&` for `||`, the wrong one of two similar variables/fields/constants, a swapped argument pair, a missing `!`, a dropped `else`, a `break` for a `continue`, a copy-pasted sibling that was not adapted, a default that changed, a shadowed variable, a missing reset, a stale comment-driven \"fix\". It must still need SOMETHING SPECIFIC TO MANIFEST (an unusual input, configuration, sequence or interleaving) so that the existing tests stay green. The two patches must be in different functions and of different kinds.",
}

def known(pid):
    out = []
    for d in sorted(glob.glob(f"{V}/seeded/{pid}-*/notes.md"), key=lambda p: int(re.search(r"-(\d+)/", p).group(1))):
        first = open(d).read().strip().split("\n")[0].lstrip("# ").strip()
        out.append(first[:220])
    return "; ".join(out)

def mutants(base, theme):
    for pr in props:
        pid = pr["id"]
        wt, out = f"{base}/{pid}", f"{base}-out/{pid}"
        os.makedirs(out, exist_ok=True)
        t = f"""You are helping to evaluate a verification tool for the Go logging library hedzr/logg (package github.com/hedzr/logg/slog). Your job is to play the role of a developer who introduces a subtle REGRESSION. You work ONLY inside your own scratch git worktree of the library at {wt} (a checkout of the current HEAD). Do NOT read or write anything under /verif or /repo, and do not use any other worktree under /tmp. Write your results to {out}/ .

THE PROPERTY that the library is supposed to satisfy (this is all the specification you get):

{pid} - {pr['title']}

Statement: {pr['statement']}

Quantifier: {pr['quantifier']['text']}


ALREADY KNOWN (do NOT reuse these mechanisms or trivial variants of them; find DIFFERENT places and mechanisms, ideally in code paths and clauses of the property these do not touch; re-read the property statement and quantifier and pick a clause none of these attacks): {known(pid)}.


YOUR TASK: produce @@NPW@@ different, independent source changes to the library (@@NPWL@@ separate patches, each applied alone to a clean checkout), each of which BREAKS this property, while
  (a) the library still compiles (`go build ./...`) and
  (b) the existing test suite still passes completely (run: `/tmp/run_suite.sh {wt}` - it must print `passed 155 failed 0`), and
  {THEMES[theme]}
  (d) do not edit, add or delete any *_test.go file in the patch, and do not change go.mod/go.sum.

For each patch k in @@NPLIST@@ provide in {out}/ :
  - patch{{k}}.diff : a unified diff produced by `git -C {wt} diff` against the clean HEAD (must apply with `git apply` at the repository root). Only non-test library files.
  - demo{{k}}_test.go : a self-contained Go test file in `package slog_test` (or `package slog` / the internal package if you need unexported access; say which directory it must be copied into in the notes) with a test function named TestDemo{{k}} that FAILS when patch{{k}} is applied and PASSES on the clean HEAD. It must be deterministic (if it needs a schedule, force it; for data races say how to run with -race). It must not depend on the network.
  - notes{{k}}.md : first line a one-line title `# {pid} patch{{k}} - <mechanism in a few words>`, then 5-15 lines: what the change is, why it looks plausible, exactly what is needed for it to manifest, the directory to copy the demo into and the exact command to run it, and the outputs you observed with and without the patch.
Verify everything yourself: apply patch, run `/tmp/run_suite.sh {wt}` (must be 155/0), run the demo (must fail), `git -C {wt} checkout -- . && git -C {wt} clean -fdq` , run the demo again on the clean tree (must pass). Leave the worktree CLEAN (no patch applied, no demo file left) when you finish.

ENVIRONMENT: no network. For every shell command first run: `export GOPROXY=off GOSUMDB=off GOTOOLCHAIN=local` . The repository uses a go.work file (keep GOWORK unset when running tests inside the worktree: `cd {wt} && go test -count=1 -run 'TestDemo1' ./slog/`). Go is 1.23. The main package is in {wt}/slog (entry.go, pc.go, attr.go, level.go, writers.go, funcs.go, adapters.go, stack.go, cmn.go, init.go, internal/times, internal/strings). Under `go test` the library is in "testing mode" (inTesting=true: Fatal/Panic do not terminate unless the Linterruptalways flag is set; the default level is Debug). Capture output by giving a logger your own writers: `l := slog.New("x").SetWriter(&buf).SetErrorWriter(&buf).SetColorMode(false)` (logfmt), `.SetJSONMode()` (JSON), `.SetColorMode(true)` (colored). Keep it focused: do not spend effort on anything but these patches. When done, reply with a 10-line summary (the two mechanisms, and confirmation of the verification steps).
"""
        np = int(os.environ.get("NPATCH", "2"))
        t = t.replace("@@NPW@@", {2: "TWO", 3: "THREE"}[np]).replace("@@NPWL@@", {2: "two", 3: "three"}[np]).replace("@@NPLIST@@", ",".join(str(i) for i in range(1, np + 1)))
        open(f"{out}/PROMPT.txt", "w").write(t)
    print("wrote", len(props), "prompts")

AREAS = [
 ("slog/entry.go (all of it: verbs, log1/logContext/print/printImpl, With*/Set*, hierarchy, attribute collection)", "PERFORMANCE-minded changes that keep behaviour: fewer allocations, hoisted loads, precomputed lengths, switch instead of if-chains, avoiding repeated method calls, merging two passes into one, early exits that are exactly equivalent"),
 ("slog/pc.go and slog/attr.go (the encoder: value switch, quoting, slices, timestamps, error rendering, serializeAttrs, dedupe)", "READABILITY changes: splitting long functions, naming magic numbers, guard clauses, table-driven forms of repeated branches that are exactly equivalent, generic helpers for sibling copies"),
 ("slog/writers.go, slog/level.go, slog/funcs.go, slog/adapters.go", "API-NEUTRAL restructuring: private helper types, method extraction, reordering of independent statements, equivalent loop forms, replacing hand-written code by exactly equivalent standard-library calls"),
 ("slog/stack.go, slog/cmn.go, slog/init.go, slog/colorize_tool.go, slog/internal/times, slog/internal/strings", "DEFENSIVE changes that cannot alter behaviour for any input: redundant-but-harmless checks, explicit zero values, comments, renamed locals, constants, equivalent arithmetic"),
]

AREAS2 = [
 ("the record printer in slog/entry.go: print, printImpl, printTimestamp, printLoggerName, printSeverity, printMsg, printFirstLineOfMsg, printRestLinesOfMsg, printPC, printOut (both entry_nolock.go and entry_lock.go) and logContext", "RESTRUCTURING of the print path that keeps every byte: regrouping the calls into helper methods, hoisting common code out of mode branches, turning if/else chains on the mode into switch statements, naming constants, early returns, passing values as parameters instead of re-reading fields (or the reverse)"),
 ("the value encoder in slog/pc.go (appendValue and the append*/xxxSliceTo/itoaS/ftoaS helpers, appendQuotedString and the strconv clones, appendTimestamp, appendError*) and slog/attr.go (serializeAttrs, dedupeSlice, Group, Attrs)", "SIMPLIFICATION that keeps every byte: merging sibling helpers through generics, table-driven forms, removing dead branches and unreachable code, equivalent loop forms, splitting long functions, local renames"),
 ("writers, levels and bridges: slog/writers.go (dualWriter, LWs, logwr, filewr), slog/level.go (RegisterLevel, ParseLevel, Marshal*/Unmarshal*, ShortTag, Enabled), slog/funcs.go (package-level verbs, logctx/logctxctx, argsToAttrs, handlerWriter), slog/adapters.go (handler4LogSlog)", "MAINTENANCE changes that keep behaviour: private helper extraction for repeated code, guard clauses, equivalent standard-library calls (slices, maps, strings.Cut*), consistent naming, reordering of independent statements"),
 ("hierarchy and configuration in slog/entry.go (newentry, newChildLogger, New, With*/Set*, Parent/Root/Each/forEachLogger, SetContextKeys, collectArgs, walkParentAttrs, fromCtx) plus slog/stack.go, slog/cmn.go, slog/init.go", "CLARITY changes that keep behaviour: type switches for assertion chains, early returns, helper extraction, named constants, equivalent boolean forms, iterative form of a tail-recursive helper ONLY if the visiting order is provably the same"),
]

def benign(base, first):
    areas = AREAS2 if os.environ.get("BENIGN_SET") == "2" else AREAS
    for i, (area, theme) in enumerate(areas):
        rid = f"R{first+i}"
        wt, out = f"{base}/{rid}", f"{base}-out/{rid}"
        os.makedirs(out, exist_ok=True)
        t = f"""You are a careful maintainer of the Go logging library hedzr/logg (package github.com/hedzr/logg/slog). You work ONLY inside your own scratch git worktree at {wt} (a checkout of the current HEAD). Do NOT read or write anything under /verif or /repo, and do not touch other worktrees. Write results to {out}/ .

YOUR TASK: produce FOUR independent, BEHAVIOUR-PRESERVING changes of the library (four separate patches, each applied alone to a clean checkout), in this area of the code: {area}.
Theme of this batch: {theme}. Mix in ordinary cleanups as you see fit: rename an unexported function, method, field, variable or constant; extract a block into a private helper function (or inline a small helper); replace an if/else chain by a switch (or vice versa); early returns; reorder two independent statements; equivalent loop forms; move a function to another file of the same package; named constants; equivalent boolean expressions; merge duplicated code of sibling functions into one shared private helper; split a long function in two. These should be ORDINARY, moderate changes of the kind found in everyday pull requests (not architectural rewrites): keep exported names and signatures and the overall call structure; work inside function bodies or add at most one or two small private helpers per patch. Make each patch NON-TRIVIAL (at least ~10 changed lines touching real logic structure, not only comments), and make the four patches DIFFERENT kinds of change.
HARD REQUIREMENTS for every patch:
  (a) observable behaviour of the library must be EXACTLY preserved for every input, configuration and interleaving: same bytes written, same destinations, same admission decisions, same panics/exits, same caller attribution (so do NOT add or remove a stack frame between a public entry point and the place where runtime.Callers/getpc is called - simplest: do not change call depth on logging paths), same concurrency safety (no new shared mutable state), same exported API.
  (b) it compiles and the whole test suite passes: `/tmp/run_suite.sh {wt}` must print `passed 155 failed 0`.
  (c) do not edit *_test.go files, go.mod or go.sum.
For each patch k in 1..4 write to {out}/ : patch{{k}}.diff (unified diff from `git -C {wt} diff` against clean HEAD, applying with `git apply` at the repo root) and notes{{k}}.md (3-8 lines: what was changed and why behaviour is unchanged). After each patch: run the suite, save the diff, then `git -C {wt} checkout -- . && git -C {wt} clean -fdq` before the next one. Leave the worktree clean at the end.
ENVIRONMENT: no network. Before shell commands run: `export GOPROXY=off GOSUMDB=off GOTOOLCHAIN=local`. Go 1.23; the repo uses a go.work file (keep GOWORK unset). Main package directory: {wt}/slog. Reply with a 8-line summary when done.
"""
        open(f"{out}/PROMPT.txt", "w").write(t)
    print("wrote", len(AREAS), "prompts")

FEATURE_AREAS = [
 "the logger API in slog/entry.go (a new With*/Set* pair, a new getter, a new New(...) option, a new verb family for an existing level)",
 "the encoder in slog/pc.go and slog/attr.go (support for a new value kind or slice kind, a new Attr constructor helper, a new flag that changes nothing unless set)",
 "levels, writers and bridges in slog/level.go, slog/writers.go, slog/funcs.go, slog/adapters.go (a new RegOpt, a new writer wrapper type, a new handler option, a new package-level convenience function)",
 "helpers in slog/stack.go, slog/cmn.go, slog/internal/times, slog/internal/strings (a new known-path helper, a new flag constant with getter, a new duration helper, a new string helper used by nothing yet or by one new API)",
]

def features(base, first):
    for i, area in enumerate(FEATURE_AREAS):
        rid = f"F{first+i}"
        wt, out = f"{base}/{rid}", f"{base}-out/{rid}"
        os.makedirs(out, exist_ok=True)
        t = f"""You are a careful maintainer of the Go logging library hedzr/logg (package github.com/hedzr/logg/slog). You work ONLY inside your own scratch git worktree at {wt} (a checkout of the current HEAD). Do NOT read or write anything under /verif or /repo, and do not touch other worktrees. Write results to {out}/ .

YOUR TASK: produce FOUR independent, CORRECT FEATURE ADDITIONS to the library (four separate patches, each applied alone to a clean checkout), in this area: {area}.
Each patch adds a small, useful, well-behaved feature in the style of the existing code (20-80 added lines), wired into the existing code paths where that is natural, WITHOUT changing any existing behaviour: every existing input, configuration and call sequence must produce exactly the same bytes, destinations, admission decisions, panics/exits and caller attribution as before (do not add or remove a stack frame between an existing public entry point and runtime.Callers/getpc; new public entry points must attribute records to THEIR caller correctly, like their siblings do). New behaviour must itself be correct and consistent with the library's documented semantics (levels gate the same way at the new entry points, output stays valid in all three formats, no shared mutable state without synchronisation, no data races).
Each patch must ALSO add its own test in a NEW file `slog/zz_feature{{k}}_test.go` (or the matching internal package directory) that exercises the feature and passes. Existing *_test.go files, go.mod and go.sum must not be edited.
HARD REQUIREMENTS: it compiles (`go build ./...`, also `cd slog && go build -tags verbose ./... && go build -tags hint ./...`), and the whole suite passes: `/tmp/run_suite.sh {wt}` must print `passed N failed 0` with N >= 155.
For each patch k in 1..4 write to {out}/ : patch{{k}}.diff (unified diff from `git -C {wt} add -N . && git -C {wt} diff` so that new files are included; it must apply with `git apply` at the repo root of a clean checkout) and notes{{k}}.md (3-8 lines: the feature, where it is wired in, why existing behaviour is unchanged). After each patch: run the suite, save the diff, then `git -C {wt} reset -q && git -C {wt} checkout -- . && git -C {wt} clean -fdq` before the next one. Leave the worktree clean at the end.
ENVIRONMENT: no network. Before shell commands run: `export GOPROXY=off GOSUMDB=off GOTOOLCHAIN=local`. Go 1.23; the repo uses a go.work file (keep GOWORK unset). Main package directory: {wt}/slog. Reply with a 8-line summary when done.
"""
        open(f"{out}/PROMPT.txt", "w").write(t)
    print("wrote", len(FEATURE_AREAS), "prompts")

if __name__ == "__main__":
    if sys.argv[1] == "mutants":
        mutants(sys.argv[2], sys.argv[3])
    elif sys.argv[1] == "features":
        features(sys.argv[2], int(sys.argv[3]))
    else:
        benign(sys.argv[2], int(sys.argv[3]))
